SPECIFICATION Spec
CONSTANTS
  Universe = {"A","B","C"}
  Arity = 1
  SchedDepth = 3
  Kind = "incentive"
  CanRemove = FALSE
INVARIANTS OnePerSet ReCreate Emit
CHECK_DEADLOCK FALSE
