SPECIFICATION Spec
CONSTANTS
  DEC = 10
  U128MAX = 100000
  MaxOffer = 6
  MinFrom = "receiver"
INVARIANTS ClausesHold
CHECK_DEADLOCK FALSE
