-------------------------------- MODULE Vault --------------------------------
(* Flash-loan vault (vault-network/vault) with the vault router.               *)
(* Top-level actions Deposit / Withdraw / Collect / SetFees / Donate take the  *)
(* call's outcome as parameters constrained by the property's clauses (rule    *)
(* layer, as in Pool.tla).  A flash loan is a *transaction*: the messages the  *)
(* code emits (transfer loan -> borrower call-back -> AfterTrade) are executed *)
(* depth-first on a scratch state by the recursive operators below; the        *)
(* borrower is an adversary script (a tree over repay / fail / nothing /       *)
(* deposit / withdraw / collect / nested loan).  Any failing message reverts   *)
(* the whole transaction.                                                      *)
EXTENDS Dec, Sequences, FiniteSets, TLC

CONSTANTS MINLIQ, Users,
          StrictNested   \* TRUE: AfterTrade also demands the fees of loans completed inside (the design that
                         \* satisfies C06, and what the code does since the repair of S3); FALSE: what the code
                         \* checked before (old_balance + own fees; witness: MC_Vault_S3witness.cfg)

Holders == Users \cup {"vault", "adv"}
VR(s) == s.bal -- s.fee                       \* assets owned by the share holders

(* state record:
   bal fee feeAll burned col circ S loans : Num ; lp : [Holders -> Num] ; w : [Users -> Num]
   aw : adversary's asset wallet ; rb : router's balance ; dueAll : sum of protocol+flash fees of completed loans
   fees : [p, f, b] decimal atomics ; tog : [d, w, l] BOOLEAN ; kind : "native" | "cw20"
   (a zero-amount transfer fails for a native asset and is a no-op for a cw20 asset)                    *)
ZeroFails(s) == s.kind = "native"

ProtocolFee(s, amt) == MulFloor(amt, s.fees.p)
FlashFee(s, amt) == MulFloor(amt, s.fees.f)
BurnFee(s, amt) == MulFloor(amt, s.fees.b)
Payback(s, amt) == ((amt ++ ProtocolFee(s, amt)) ++ FlashFee(s, amt)) ++ BurnFee(s, amt)
VaultFeesValid(f) == /\ Zero \preceq f.p /\ Zero \preceq f.f /\ Zero \preceq f.b
                     /\ ((f.p ++ f.f) ++ f.b) \prec DEC

-----------------------------------------------------------------------------
(* Deposit / Withdraw: rule layer and today's formulas                          *)

ImplMint(s, amt) == IF s.S = Zero THEN amt -- MINLIQ ELSE (amt ** s.S) // VR(s)
ImplPaid(s, shares) == MulFloor(VR(s), FromRatio(shares, s.S))

DepositChecks(s, amt, minted) ==
  << <<"C05.deposit.first<=amount-minliq", s.S = Zero => (minted ++ MINLIQ) \preceq amt>>,
     <<"C05.deposit.prorata", Zero \prec s.S => (minted ** VR(s)) \preceq (amt ** s.S)>>,
     <<"C05.deposit.minted>=0", Zero \preceq minted>>,
     <<"C06.no-mint-during-loan", s.loans = Zero>> >>

DepositNext(s, who, amt, minted) ==
  LET lock == IF s.S = Zero THEN MINLIQ ELSE Zero
      lp1 == [s.lp EXCEPT ![who] = @ ++ minted]
      s1 == [s EXCEPT !.bal = @ ++ amt, !.lp = [lp1 EXCEPT !["vault"] = @ ++ lock], !.S = (@ ++ minted) ++ lock]
  IN IF who = "adv" THEN [s1 EXCEPT !.aw = @ -- amt] ELSE [s1 EXCEPT !.w = [@ EXCEPT ![who] = @ -- amt]]

WithdrawChecks(s, who, shares, paid) ==
  << <<"C05.withdraw.owned", shares \preceq s.lp[who]>>,
     <<"C05.withdraw.prorata", (paid ** s.S) \preceq (shares ** VR(s))>>,
     <<"C05.withdraw.nonneg", Zero \preceq paid>> >>

WithdrawNext(s, who, shares, paid) ==
  LET s1 == [s EXCEPT !.bal = @ -- paid, !.lp = [@ EXCEPT ![who] = @ -- shares], !.S = @ -- shares]
  IN IF who = "adv" THEN [s1 EXCEPT !.aw = @ ++ paid] ELSE [s1 EXCEPT !.w = [@ EXCEPT ![who] = @ ++ paid]]

CollectNext(s, sent) == [s EXCEPT !.bal = @ -- sent, !.fee = @ -- sent, !.col = @ ++ sent]
CollectChecks(s, sent) == << <<"C07.collect.sends-pending", sent = s.fee>> >>
SetFeesNext(s, f) == [s EXCEPT !.fees = f]
DonateNext(s, u, x) == [s EXCEPT !.bal = @ ++ x, !.w = [@ EXCEPT ![u] = @ -- x]]

-----------------------------------------------------------------------------
(* Transactions.  A result is [ok |-> BOOLEAN, s |-> state].                    *)

Ok(s) == [ok |-> TRUE, s |-> s]
Fail(s) == [ok |-> FALSE, s |-> s]

\* a script atom is a record with field a \in {"repay","fail","nothing","deposit","withdraw","collect","loan","fcb","pause"}
\* ("fcb": the borrower sends the vault a forged Callback(AfterTrade) of its own - the callback is the vault's message to
\*  itself and must be refused from anybody else, loan in flight or not, which fails the borrower's whole transaction)
RECURSIVE RunScript(_, _, _), RunLoan(_, _, _)

AfterTrade(s, old, amt, due0) ==
  LET pf == ProtocolFee(s, amt)  ff == FlashFee(s, amt)  bf == BurnFee(s, amt)
      inner == IF StrictNested THEN s.dueAll -- due0 ELSE Zero
      req == (((old ++ pf) ++ ff) ++ bf) ++ inner
  IN IF s.bal \prec req THEN Fail(s)
     ELSE Ok([s EXCEPT !.fee = @ ++ pf, !.feeAll = @ ++ pf, !.loans = @ -- One,
                       !.burned = @ ++ bf, !.bal = @ -- bf, !.circ = @ -- bf,
                       !.dueAll = (@ ++ pf) ++ ff])

\* the adversary contract interprets one atom; `target` is "vault" (direct loan) or "router"
RunAtom(s, at, target) ==
  CASE at.a = "nothing" -> Ok(s)
    [] at.a = "fail" -> Fail(s)
    [] at.a = "fcb" -> Fail(s)
    \* "pause": the borrower sets the vault's pause switches - the owner's message; it fails the transaction unless the
    \* vault has been handed to the borrower contract (s.own); it changes nothing but the switches
    [] at.a = "pause" ->
         IF ~s.own THEN Fail(s)
         ELSE LET pick(x, cur) == IF x = "none" THEN cur ELSE x = "on" IN
              Ok([s EXCEPT !.tog = [d |-> pick(at.d, s.tog.d), w |-> pick(at.w, s.tog.w), l |-> pick(at.l, s.tog.l)]])
    [] at.a = "repay" ->
         IF (at.x = Zero /\ ZeroFails(s)) \/ s.aw \prec at.x THEN Fail(s)
         ELSE IF target = "vault" THEN Ok([s EXCEPT !.aw = @ -- at.x, !.bal = @ ++ at.x])
              ELSE Ok([s EXCEPT !.aw = @ -- at.x, !.rb = @ ++ at.x])
    [] at.a = "deposit" ->
         IF ~s.tog.d \/ s.loans # Zero \/ s.aw \prec at.x \/ at.x = Zero THEN Fail(s)
         ELSE IF s.S = Zero /\ at.x \preceq MINLIQ THEN Fail(s)
         ELSE IF Zero \prec s.S /\ (VR(s) = Zero \/ ImplMint(s, at.x) = Zero) THEN Fail(s)
         ELSE Ok(DepositNext(s, "adv", at.x, ImplMint(s, at.x)))
    [] at.a = "withdraw" ->
         IF ~s.tog.w \/ s.lp["adv"] \prec at.x \/ s.S = Zero \/ s.bal \prec s.fee THEN Fail(s)
         ELSE LET paid == ImplPaid(s, at.x) IN
              IF paid = Zero /\ ZeroFails(s) THEN Fail(s) ELSE Ok(WithdrawNext(s, "adv", at.x, paid))
    \* nothing is sent when nothing is pending; inside a loan the vault may hold less than it owes the collector: the transfer fails
    [] at.a = "collect" -> IF s.bal \prec s.fee THEN Fail(s) ELSE Ok(CollectNext(s, s.fee))
    [] at.a = "loan" -> RunLoan(s, at.x, at.sub)

RunScript(s, script, target) ==
  IF script = <<>> THEN Ok(s)
  ELSE LET r == RunAtom(s, Head(script), target) IN
       IF r.ok THEN RunScript(r.s, Tail(script), target) ELSE r

\* direct loan taken by the adversary: transfer -> call-back(script) -> AfterTrade
RunLoan(s, amt, script) ==
  IF ~s.tog.l \/ s.bal \prec amt \/ (amt = Zero /\ ZeroFails(s)) THEN Fail(s)
  ELSE LET s1 == [s EXCEPT !.loans = @ ++ One, !.bal = @ -- amt, !.aw = @ ++ amt]
           r == RunScript(s1, script, "vault")
       IN IF r.ok THEN AfterTrade(r.s, s.bal, amt, s.dueAll) ELSE Fail(s)

\* loan through the vault router for initiator u: the router is the borrower, runs the payload
\* (one call of the adversary with `script`), pays the vault the quoted amount and forwards the rest
\* att: coins of the vault's asset the initiator attaches to the router's FlashLoan message - they are the initiator's and
\* come back with the remaining proceeds (the router keeps nothing and hands the vault nothing but the quoted amount)
RunRouterLoanA(s, u, amt, script, att) ==
  IF ~s.tog.l \/ s.bal \prec amt \/ (amt = Zero /\ ZeroFails(s)) \/ s.w[u] \prec att THEN Fail(s)
  ELSE LET s1 == [s EXCEPT !.loans = @ ++ One, !.bal = @ -- amt, !.rb = (@ ++ amt) ++ att, !.w = [@ EXCEPT ![u] = @ -- att]]
           r == RunScript(s1, script, "router")
       IN IF ~r.ok THEN Fail(s)
          ELSE LET pay == Payback(r.s, amt) IN
               IF r.s.rb \prec pay \/ (pay = Zero /\ ZeroFails(s)) THEN Fail(s)
               ELSE LET rest == r.s.rb -- pay
                        s2 == [r.s EXCEPT !.rb = Zero, !.bal = @ ++ pay, !.w = [@ EXCEPT ![u] = @ ++ rest]]
                        t == AfterTrade(s2, s.bal, amt, s.dueAll)
                    IN IF t.ok THEN t ELSE Fail(s)
RunRouterLoan(s, u, amt, script) == RunRouterLoanA(s, u, amt, script, Zero)

\* fees of every loan in a script tree (all complete when the transaction succeeds)
RECURSIVE ScriptFees(_, _)
ScriptFees(s, script) ==
  IF script = <<>> THEN [pf |-> Zero, ff |-> Zero, bf |-> Zero, wd |-> Zero, dep |-> FALSE, loans |-> 0]
  ELSE LET at == Head(script)  rest == ScriptFees(s, Tail(script)) IN
       IF at.a = "loan"
       THEN LET sub == ScriptFees(s, at.sub) IN
            [pf |-> (rest.pf ++ sub.pf) ++ ProtocolFee(s, at.x), ff |-> (rest.ff ++ sub.ff) ++ FlashFee(s, at.x),
             bf |-> (rest.bf ++ sub.bf) ++ BurnFee(s, at.x), wd |-> rest.wd ++ sub.wd,
             dep |-> rest.dep \/ sub.dep, loans |-> rest.loans + sub.loans + 1]
       ELSE IF at.a = "withdraw" THEN [rest EXCEPT !.wd = @ ++ at.x]
       ELSE IF at.a = "deposit" THEN [rest EXCEPT !.dep = TRUE]
       ELSE rest

\* deposits that sit inside some loan of the script tree
RECURSIVE DepositInsideLoan(_, _)
DepositInsideLoan(script, inside) ==
  IF script = <<>> THEN FALSE
  ELSE LET at == Head(script) IN
       \/ (at.a = "deposit" /\ inside)
       \/ (at.a = "loan" /\ DepositInsideLoan(at.sub, TRUE))
       \/ DepositInsideLoan(Tail(script), inside)

-----------------------------------------------------------------------------
(* Global properties over one (top-level) step s -> t                          *)

Sum(f, D) == LET RECURSIVE go(_)
                 go(X) == IF X = {} THEN Zero ELSE LET x == CHOOSE y \in X : TRUE IN f[x] ++ go(X \ {x})
             IN go(D)

StateChecks(t) ==
  << <<"C05.solvent", Zero \preceq t.fee /\ t.fee \preceq t.bal>>,
     <<"C05.lp.supply=sum", t.S = Sum(t.lp, Holders)>>,
     <<"C05.minliq.locked", Zero \prec t.S => MINLIQ \preceq t.lp["vault"]>>,
     <<"C06.loan-counter=0", t.loans = Zero>>,
     <<"C07.pending<=alltime", t.fee \preceq t.feeAll>> >>

StepChecks(s, t) ==
  << <<"C05.share-value", (Zero \prec s.S /\ Zero \prec t.S) => (VR(t) ** s.S) \succeq (VR(s) ** t.S)>>,
     <<"C05.minliq.forever", Zero \prec s.S => (Zero \prec t.S /\ s.lp["vault"] \preceq t.lp["vault"])>>,
     <<"C07.alltime.monotone", s.feeAll \preceq t.feeAll /\ s.burned \preceq t.burned>>,
     <<"C07.ledger=charged-sent", (t.feeAll -- s.feeAll) -- (t.col -- s.col) = t.fee -- s.fee>>,
     <<"C07.burn.leaves.circulation", s.circ -- t.circ = t.burned -- s.burned>> >>

\* C06 for one completed transaction whose top level is a single loan with call-back tree `script`
\* (script = <<[a |-> "loan", x |-> amount, sub |-> ...]>>), s -> t.  Withdrawals and fee collections
\* inside the call-back lower the balance, but AfterTrade compares with the balance before the loan,
\* so the statement holds without adjustment.
LoanTxChecks(s, t, script) ==
  LET f == ScriptFees(s, script) IN
  << <<"C06.completed.balance>=before+fees", ((s.bal ++ f.pf) ++ f.ff) \preceq t.bal>>,
     \* what the code enforces even when loans are nested (see known finding S3): the outermost loan's own fees
     <<"C06.completed.balance>=before+outer-fees",
        ((s.bal ++ ProtocolFee(s, script[1].x)) ++ FlashFee(s, script[1].x)) \preceq t.bal>>,
     <<"C06.completed.burn-fees-destroyed", t.burned -- s.burned = f.bf /\ s.circ -- t.circ = f.bf>>,
     <<"C06.completed.protocol-fees-recorded", t.feeAll -- s.feeAll = f.pf>>,
     <<"C06.completed.no-shares-minted", t.S = s.S -- f.wd>>,
     <<"C06.completed.no-deposit-inside-loan", ~DepositInsideLoan(script, FALSE)>> >>
=============================================================================
