---------------------------- MODULE Trace_Access ----------------------------
(* Trace validation of the access matrix (C16) against the policy table.      *)
EXTENDS Access, Json, IOUtils, Integers

Rec == ndJsonDeserialize(IOEnv.TRACE)
VARIABLE l

SeqToSet(sq) == {sq[i] : i \in 1 .. Len(sq)}

EvChecks(ev) ==
  CASE ev.ev = "call" ->
         CallChecks(ev.args.c, ev.args.v, ev.args.role, ev.args.phase, ev.res, ev.dpre = ev.dpost)
    \* a direct wasm-level migration of a factory's child by an account (the factory's owner before or after the hand-over,
    \* anybody else): children are migrated through their factory only
    [] ev.ev = "adminmigrate" ->
         << <<"C16.children-are-migrated-only-through-their-factory", ev.res # "ok" /\ ev.dpre = ev.dpost>> >>
    [] ev.ev = "transfer" -> << <<"C16.owner-can-transfer-ownership", ev.res = "ok">> >>
    [] ev.ev = "reset" ->
         \* variant discovery: every privileged-looking variant the schema knows must be in the table
         << <<"drift.policy-table-lists-unknown-variant",
               VariantsOf(ev.cfg.c) \subseteq SeqToSet(ev.cfg.variants)>> >>
    [] OTHER -> << <<"TRACE.unknown-event", FALSE>> >>

Failed(checks) == { checks[i][1] : i \in { j \in DOMAIN checks : ~checks[j][2] } }
Report(ev, bad) ==
  IF bad = {} THEN TRUE
  ELSE PrintT(ToJson([k |-> "BAD", run |-> ev.run, step |-> IF ev.ev = "reset" THEN -1 ELSE ev.step,
                      line |-> l, ev |-> ev.ev, bad |-> bad]))
Init == l = 1
Next == l <= Len(Rec) /\ Report(Rec[l], Failed(EvChecks(Rec[l]))) /\ l' = l + 1
Spec == Init /\ [][Next]_l
Consumed ==
  /\ PrintT(ToJson([k |-> "CONSUMED", consumed |-> TLCGet("stats").diameter - 1, lines |-> Len(Rec)]))
  /\ TLCGet("stats").diameter - 1 = Len(Rec)
=============================================================================
