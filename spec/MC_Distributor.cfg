SPECIFICATION Spec
CONSTANTS
  DEC = 100
  U128MAX = 100000
  Users = {"u1", "u2"}
  MaxEpochs = 5
  Inflows = {0, 4}
  Grace0 = 2
  MaxGrace = 3
  SchedDepth = 0
  EmitSched = FALSE
VIEW View
INVARIANTS StateOK PaidOnce
PROPERTY GraceOK
CHECK_DEADLOCK FALSE
