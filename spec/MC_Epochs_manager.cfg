SPECIFICATION Spec
CONSTANTS
  DEC = 100
  U128MAX = 100000
  AllHooks = {"h1", "h2"}
  Dur = 4
  Genesis = 3
  MaxNow = 40
  MaxId = 6
  SchedDepth = 0
  EmitSched = FALSE
  Kind = "manager"
VIEW View
INVARIANTS GapFree HookLogsOK NotEarly
PROPERTIES StepOK NeverEarly
CHECK_DEADLOCK FALSE
