-------------------------------- MODULE Pool --------------------------------
(* Two-asset liquidity pool (terraswap_pair): state machine with one action   *)
(* per entry point.  Every action takes the *outcome* of the call (minted     *)
(* shares, refunds, swap proceeds and fees, amounts sent) as parameters:      *)
(*   <Op>Checks(st, args, outcome)  named rules = the properties' own clauses *)
(*   <Op>Next(st, args, outcome)    the next state by conservation            *)
(*   Impl<Op>(st, args)             the outcome today's code computes         *)
(* The rule layer is what real traces are judged against (Trace_Pool) and     *)
(* what TLC explores (MC_Pool); the Impl layer is checked to satisfy the      *)
(* rules in every reachable bounded state and is used for drift reporting.    *)
(* Assets are indexed 1..2; amounts are Num values.                           *)
EXTENDS CpMath, Slip, Sequences, FiniteSets, TLC

CONSTANTS MINLIQ,       \* MINIMUM_LIQUIDITY_AMOUNT (1000 in the code)
          COLLECT_MIN,  \* MINIMUM_COLLECTABLE_BALANCE (1000 in the code)
          Users         \* set of user names (strings)

Holders == Users \cup {"pair"}
Oth(a) == 3 - a
R(st, a) == st.bal[a] -- st.fee[a]                 \* reserve the pool reports
LockedMin(st) == IF st.ptype = "cp" THEN MINLIQ ELSE Two ** MINLIQ
Pair2(x, y) == <<x, y>>
Add2(t, a, v) == [t EXCEPT ![a] = @ ++ v]
Sub2(t, a, v) == [t EXCEPT ![a] = @ -- v]

(* state record:
   bal, fee, feeAll, burned, col, circ : <<Num, Num>>   balances / ledgers per asset
   S : Num  LP supply;  lp : [Holders -> Num];  w : [Users -> <<Num, Num>>]
   fees : [p, s, b] decimal atomics;  tog : [d, w, s] BOOLEAN
   ptype : "cp" | "stable";  kinds : <<"native"|"cw20", ..>>                    *)

-----------------------------------------------------------------------------
(* ProvideLiquidity                                                           *)

ImplMintCp(st, d) ==
  IF st.S = Zero THEN Sqrt(d[1] ** d[2]) -- MINLIQ
  ELSE NMin(MulRatio(d[1], st.S, R(st, 1)), MulRatio(d[2], st.S, R(st, 2)))

ProvideChecks(st, u, d, recv, minted) ==
  LET first == st.S = Zero IN
  << <<"C01.provide.minted>=0", Zero \preceq minted>>,
     <<"C01.provide.first<=sqrt-minliq",
        (first /\ st.ptype = "cp") => ((minted ++ MINLIQ) ** (minted ++ MINLIQ)) \preceq (d[1] ** d[2])>>,
     <<"C01.provide.prorata",
        (~first /\ st.ptype = "cp") => \A a \in 1 .. 2 : (minted ** R(st, a)) \preceq (d[a] ** st.S)>> >>

ProvideNext(st, u, d, recv, minted) ==
  LET lock == IF st.S = Zero THEN LockedMin(st) ELSE Zero
      lp1 == [st.lp EXCEPT ![recv] = @ ++ minted]
  IN [st EXCEPT !.bal = <<st.bal[1] ++ d[1], st.bal[2] ++ d[2]>>,
                !.w = [st.w EXCEPT ![u] = <<st.w[u][1] -- d[1], st.w[u][2] -- d[2]>>],
                !.lp = [lp1 EXCEPT !["pair"] = @ ++ lock],
                !.S = (st.S ++ minted) ++ lock]

\* deposit slippage (C15): pools are the reported reserves in the pre-state
SlipBoundCp(st, d, t) ==   \* accepted => bound, with two decimal atomics of slack
  \A a \in 1 .. 2 :
    ((d[a] ** (DEC -- t)) ** R(st, Oth(a))) \prec (((R(st, a) ** DEC) ** d[Oth(a)]) ++ ((Two ** d[Oth(a)]) ** R(st, Oth(a))))
SlipInsideCp(st, d, t) ==  \* strictly inside => must not be rejected for slippage
  \A a \in 1 .. 2 :
    (((d[a] ** (DEC -- t)) ** R(st, Oth(a))) ++ (d[Oth(a)] ** R(st, Oth(a)))) \preceq ((R(st, a) ** DEC) ** d[Oth(a)])

-----------------------------------------------------------------------------
(* WithdrawLiquidity (cw20 Send hook on the LP token)                         *)

ImplRefund(st, amt) ==
  LET ratio == FromRatio(amt, st.S) IN <<MulFloor(R(st, 1), ratio), MulFloor(R(st, 2), ratio)>>

WithdrawChecks(st, u, amt, out) ==
  << <<"C01.withdraw.owned", amt \preceq st.lp[u]>>,
     <<"C01.withdraw.prorata", \A a \in 1 .. 2 : (out[a] ** st.S) \preceq (amt ** R(st, a))>>,
     <<"C01.withdraw.nonneg", \A a \in 1 .. 2 : Zero \preceq out[a]>> >>

WithdrawNext(st, u, amt, out) ==
  [st EXCEPT !.bal = <<st.bal[1] -- out[1], st.bal[2] -- out[2]>>,
             !.w = [st.w EXCEPT ![u] = <<st.w[u][1] ++ out[1], st.w[u][2] ++ out[2]>>],
             !.lp = [st.lp EXCEPT ![u] = @ -- amt],
             !.S = st.S -- amt]

-----------------------------------------------------------------------------
(* Swap (native: ExecuteMsg::Swap with funds; cw20: Send hook).  dir = index  *)
(* of the offer asset; o = [ret, sf, pf, bf, spread]; proceeds go to `to`.    *)

ImplSwap(st, dir, offer) == CpSwap(R(st, dir), R(st, Oth(dir)), offer, st.fees)

SwapChecks(st, dir, offer, o) ==
  IF st.ptype = "cp" THEN CpRules(R(st, dir), R(st, Oth(dir)), offer, st.fees, o) ELSE <<>>

SwapNext(st, u, dir, offer, o, to) ==
  LET ask == Oth(dir)
      w1 == [st.w EXCEPT ![u] = Sub2(@, dir, offer)]
  IN [st EXCEPT !.bal = Sub2(Add2(st.bal, dir, offer), ask, o.ret ++ o.bf),
                !.fee = Add2(st.fee, ask, o.pf),
                !.feeAll = Add2(st.feeAll, ask, o.pf),
                !.burned = Add2(st.burned, ask, o.bf),
                !.circ = Sub2(st.circ, ask, o.bf),
                \* the proceeds go to a user's wallet or, when so addressed, to the pool's fee collector
                !.w = IF to = "collector" THEN w1 ELSE [w1 EXCEPT ![to] = Add2(@, ask, o.ret)],
                !.col = IF to = "collector" THEN Add2(st.col, ask, o.ret) ELSE st.col]

\* C15: the spread rules (EffSpread, SpreadBound, SpreadInside) are in Slip.tla, shared with the three-asset pool
\* the reported spread may not understate the loss against the pool price
SpreadNotUnderstated(st, dir, offer, gross, spread) ==
  Monus(MulFloor(offer, FromRatio(R(st, Oth(dir)), R(st, dir))), gross) \preceq spread

-----------------------------------------------------------------------------
(* CollectProtocolFees: sent[a] goes to the collector                         *)

ImplCollect(st) ==
  <<IF COLLECT_MIN \prec st.fee[1] THEN st.fee[1] ELSE Zero,
    IF COLLECT_MIN \prec st.fee[2] THEN st.fee[2] ELSE Zero>>

CollectChecks(st, sent) ==
  << <<"C07.collect.sends-pending-or-nothing", \A a \in 1 .. 2 : sent[a] = Zero \/ sent[a] = st.fee[a]>> >>

CollectNext(st, sent) ==
  [st EXCEPT !.bal = <<st.bal[1] -- sent[1], st.bal[2] -- sent[2]>>,
             !.fee = <<st.fee[1] -- sent[1], st.fee[2] -- sent[2]>>,
             !.col = <<st.col[1] ++ sent[1], st.col[2] ++ sent[2]>>]

-----------------------------------------------------------------------------
(* Configuration, donations, LP transfers                                     *)

SetFeesNext(st, f) == [st EXCEPT !.fees = f]
DonateNext(st, u, a, x) == [st EXCEPT !.bal = Add2(st.bal, a, x), !.w = [st.w EXCEPT ![u] = Sub2(@, a, x)]]
LpTransferNext(st, u, v, x) == [st EXCEPT !.lp = [[st.lp EXCEPT ![u] = @ -- x] EXCEPT ![v] = @ ++ x]]

-----------------------------------------------------------------------------
(* Global properties, as checks over one step s -> t                          *)

Sum(f, D) == LET RECURSIVE go(_)
                 go(X) == IF X = {} THEN Zero ELSE LET x == CHOOSE y \in X : TRUE IN f[x] ++ go(X \ {x})
             IN go(D)

StateChecks(t) ==
  << <<"C01.solvent", \A a \in 1 .. 2 : Zero \preceq t.fee[a] /\ t.fee[a] \preceq t.bal[a]>>,
     <<"C01.lp.supply=sum", t.S = Sum(t.lp, Holders)>>,
     <<"C01.minliq.locked", Zero \prec t.S => LockedMin(t) \preceq t.lp["pair"]>>,
     <<"C01.no-negative-wallet", \A u \in Users : \A a \in 1 .. 2 : Zero \preceq t.w[u][a]>>,
     <<"C07.pending<=alltime", \A a \in 1 .. 2 : t.fee[a] \preceq t.feeAll[a]>> >>

\* gift[a]: what the fee collector was paid in this step for another reason than a fee collection (the proceeds of a swap
\* addressed to it) - not part of "transferred to the fee collector" in the ledger identity
StepChecksG(s, t, gift) ==
  << <<"C01.lpvalue",
        (s.ptype = "cp" /\ Zero \prec s.S /\ Zero \prec t.S) =>
          (((R(t, 1) ** R(t, 2)) ** s.S) ** s.S) \succeq (((R(s, 1) ** R(s, 2)) ** t.S) ** t.S)>>,
     <<"C01.minliq.forever", Zero \prec s.S => (Zero \prec t.S /\ s.lp["pair"] \preceq t.lp["pair"])>>,
     <<"C07.alltime.monotone",
        \A a \in 1 .. 2 : s.feeAll[a] \preceq t.feeAll[a] /\ s.burned[a] \preceq t.burned[a]>>,
     <<"C07.ledger=charged-sent",
        \A a \in 1 .. 2 : (t.feeAll[a] -- s.feeAll[a]) -- ((t.col[a] -- s.col[a]) -- gift[a]) = t.fee[a] -- s.fee[a]>>,
     <<"C07.burn.leaves.circulation",
        \A a \in 1 .. 2 : s.circ[a] -- t.circ[a] = t.burned[a] -- s.burned[a]>> >>

StepChecks(s, t) == StepChecksG(s, t, <<Zero, Zero>>)
=============================================================================
