SPECIFICATION Spec
CONSTANTS
  Users = {"u1", "u2"}
  Durs = {2}
  Amts = {1, 2}
  ExpandDelta = TRUE
  MaxLp = 6
  MaxEpoch = 3
  SchedDepth = 5
  EmitSched = TRUE
  FlowAmts = {1, 3}
CONSTRAINT Depth

INVARIANTS Custody WeightsAddUp Emit
CHECK_DEADLOCK FALSE
