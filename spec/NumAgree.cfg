INIT Init
NEXT Next
