----------------------------- MODULE Trace_Math -----------------------------
(* Pure functions as one-event traces: every call of the real math (through   *)
(* the verif_hooks re-exports) is one line; the TLA+ definitions evaluated    *)
(* with the big-number back end are the oracle.  Stateless: the only variable *)
(* is the position in the trace.                                              *)
EXTENDS Pool, Stable, Newton, Json, IOUtils

Rec == ndJsonDeserialize(IOEnv.TRACE)
VARIABLE l

FeesOf(a) == [p |-> a.fees.p, s |-> a.fees.s, b |-> a.fees.b]

CpEv(ev) ==
  LET a == ev.args  f == FeesOf(a)  impl == CpSwap(a.op, a.ak, a.off, f) IN
  << <<"C02.aborts-though-result-fits", CpFits(impl) => ev.res = "ok">>,
     <<"C02.fees-valid-input", FeesValid(f)>> >>
  \o (IF ev.res = "ok"
      THEN CpRules(a.op, a.ak, a.off, f, ev.out)
           \o << <<"drift.cpswap",
                    /\ impl.ret = ev.out.ret /\ impl.sf = ev.out.sf /\ impl.pf = ev.out.pf
                    /\ impl.bf = ev.out.bf /\ impl.spread = ev.out.spread>> >>
      ELSE <<>>)

CpRoundEv(ev) ==
  LET a == ev.args  f == FeesOf(a)  b == BackReserves(a.op, a.ak, a.off, ev.out) IN
  CpEv(ev)
  \o << <<"C02.roundtrip.inputs", ev.args2.op = b.op /\ ev.args2.ak = b.ak /\ ev.args2.off = b.off>>,
        <<"C02.roundtrip.no-profit", ev.res2 = "ok" => ev.out2.ret \preceq a.off>>,
        <<"C02.roundtrip.back-aborts-though-fits",
           CpFits(CpSwap(b.op, b.ak, b.off, f)) => ev.res2 = "ok">> >>
  \o (IF ev.res2 = "ok" THEN CpRules(b.op, b.ak, b.off, f, ev.out2) ELSE <<>>)

MaxSpreadEv(ev) ==
  LET a == ev.args IN
  << <<"C15.accepted=>bound", ev.res = "ok" => SpreadBound(a.offer, a.gross, a.spread, a.ms, a.bp)>>,
     <<"C15.inside=>accepted", SpreadInside(a.offer, a.gross, a.spread, a.ms, a.bp) => ev.res = "ok">> >>

\* incentive weight: three calls (d1,a1), (d1,a2), (d2,a1) with a1 <= a2 and d1 <= d2 inside the allowed range
WeightEv(ev) ==
  << <<"C13.weight.defined-on-the-allowed-range", ev.res = "ok">>,
     <<"C13.weight>=amount", ev.res = "ok" => ev.args.a1 \preceq ev.out.w11 /\ ev.args.a2 \preceq ev.out.w12>>,
     <<"C13.weight.non-decreasing-in-amount", ev.res = "ok" => ev.out.w11 \preceq ev.out.w12>>,
     <<"C13.weight.non-decreasing-in-duration", ev.res = "ok" => ev.out.w11 \preceq ev.out.w21>> >>

\* ---- two-asset stableswap (C03): reserves normalised to 18 decimals, curve solved independently -------------
St2SwapEv(ev) ==
  LET a == ev.args
      X == Norm(a.op, a.do)  Y == Norm(a.ak, a.da)  amp == a.amp
      inDomain == Pow(N(10), a.do) \preceq a.op /\ Pow(N(10), a.da) \preceq a.ak   \* one whole token of each
      f == [p |-> a.fees.p, s |-> a.fees.s, b |-> a.fees.b]
  IN IF ~inDomain \/ ev.res # "ok" THEN <<>>
     ELSE LET D == Dstar2(X, Y, amp)
              X1 == X ++ Norm(a.off, a.do)
              g == GrossOf(ev.out)
          IN << <<"C03.swap.proceeds<=ask-reserve", g \preceq a.ak>>,
                <<"C03.swap.ask-reserve-not-below-the-curve",
                   g \preceq a.ak => (Norm(a.ak -- g, a.da) ++ Dust2(X1, D, amp, a.da)) \succeq Ystar2(X1, D, amp)>>,
                <<"C03.swap.fees=floor(share*gross)",
                   ev.out.sf = MulFloor(g, f.s) /\ ev.out.pf = MulFloor(g, f.p) /\ ev.out.bf = MulFloor(g, f.b)>>,
                <<"C03.swap.proceeds-monotone-in-offer", ev.res2 = "ok" => g \preceq GrossOf(ev.out2)>> >>
St2DepEv(ev) ==
  LET a == ev.args
      A0 == Norm(a.pa, a.da)  B0 == Norm(a.pb, a.db)
      A1 == Norm(a.pa ++ a.xa, a.da)  B1 == Norm(a.pb ++ a.xb, a.db)
      inDomain == Pow(N(10), a.da) \preceq a.pa /\ Pow(N(10), a.db) \preceq a.pb
      U == Pow(N(10), 18 - (IF a.da < a.db THEN a.da ELSE a.db))
      suffix == IF a.da # a.db THEN "(unequal-decimals)" ELSE ""
      e0 == (N(16) ++ Lopsided(NMax(A0, B0), NMin(A0, B0))) ** U
      e1 == (N(16) ++ Lopsided(NMax(A1, B1), NMin(A1, B1))) ** U
      \* drift: the step-for-step transcription of compute_d / the LP mint (Newton.tla) predicts verdict and amount
      impl == ImplMint2(a.amp, a.xa, a.xb, a.pa, a.pb, a.S)
      drift == IF ev.res = "aborted" \/ a.pa = Zero \/ a.pb = Zero THEN <<>>
               ELSE << <<"drift.st2dep.mint=Newton-transcription",
                          (ev.res = "ok") = impl.ok /\ (impl.ok => ev.out.minted = impl.minted)>> >>
  IN drift \o (IF ~inDomain \/ ev.res # "ok" THEN <<>>
               ELSE MintChecks("C03", suffix, ev.out.minted, a.S, Dstar2(A0, B0, a.amp), Dstar2(A1, B1, a.amp), e0, e1))

\* ---- three-asset curve (C04): raw base units -----------------------------------------------------------------
\* floor(D after) < floor(D before) proves that the real invariant fell (literal clause).  The code solves D and y by
\* Newton iterations that stop when two iterates are one unit apart and subtracts one more unit from the proceeds; what
\* is left of the error is worth (8 + sqrt(lopsidedness)) units times the local slope of the independent curve
\* (dust clause; measured at most 4 % of that over 6e4 calls up to ratios of 1e22).
St3SwapEv(ev) ==
  LET a == ev.args IN
  IF ev.res # "ok" THEN <<>>
  ELSE LET dy == ev.out.dy
           x1 == a.src ++ a.amt
       IN IF a.dst \prec dy THEN << <<"C04.swap.proceeds<=reserve", FALSE>> >>
          ELSE LET y1 == a.dst -- dy
                   D0 == Dstar3(a.src, a.dst, a.uns, a.amp)
                   D1 == Dstar3(x1, y1, a.uns, a.amp)
                   lop == N(8) ++ Lopsided(NMax(x1, NMax(a.dst, a.uns)), NMin(a.src, NMin(y1, a.uns)))
                   back == ev.res2 = "ok"
                   prof == back /\ a.amt \prec ev.out2.dx
                   dustD == lop ** ((Dstar3(x1, y1 ++ One, a.uns, a.amp) -- D1) ++ Two)
                   xa == Ystar3(a.dst, a.uns, D1, a.amp)
                   dustX == lop ** (((Ystar3(NMax(a.dst -- One, One), a.uns, D1, a.amp) -- xa) ++ (Ystar3(a.dst, a.uns, D1 ++ One, a.amp) -- xa)) ++ Two)
               IN << <<"C04.swap.proceeds<=reserve", TRUE>>,
                     <<"C04.swap.invariant-never-decreases", D0 \preceq D1>>,
                     <<"C04.swap.invariant-decrease-within-rounding-dust", D0 \preceq D1 \/ D0 \preceq (D1 ++ dustD)>>,
                     <<"C04.swap.there-and-back-never-profits", ~prof>>,
                     <<"C04.swap.there-and-back-profit-within-rounding-dust", ~prof \/ ev.out2.dx \preceq (a.amt ++ dustX)>> >>
St3DepDrift(ev) ==
  LET a == ev.args IN
  IF ev.res = "aborted" \/ a.pa = Zero \/ a.pb = Zero \/ a.pc = Zero THEN <<>>
  ELSE LET impl == ImplMint3(a.amp, a.xa, a.xb, a.xc, a.pa, a.pb, a.pc, a.S) IN
       << <<"drift.st3dep.mint=Newton-transcription", (ev.res = "ok") = impl.ok /\ (impl.ok => ev.out.minted = impl.minted)>> >>
St3DepRules(ev) ==
  LET a == ev.args IN
  IF ev.res # "ok" THEN <<>>
  ELSE LET qa == a.pa ++ a.xa  qb == a.pb ++ a.xb  qc == a.pc ++ a.xc
           e0 == N(16) ++ Lopsided(NMax(a.pa, NMax(a.pb, a.pc)), NMin(a.pa, NMin(a.pb, a.pc)))
           e1 == N(16) ++ Lopsided(NMax(qa, NMax(qb, qc)), NMin(qa, NMin(qb, qc)))
       IN MintChecks("C04", "", ev.out.minted, a.S, Dstar3(a.pa, a.pb, a.pc, a.amp), Dstar3(qa, qb, qc, a.amp), e0, e1)
St3DepEv(ev) == St3DepDrift(ev) \o St3DepRules(ev)
AmpEv(ev) ==
  LET a == ev.args  v == ev.out.amp IN
  << <<"C04.amp.computed", ev.res = "ok">>,
     <<"C04.amp.between-start-and-target",
        ev.res = "ok" => (IF a.init \preceq a.target THEN a.init \preceq v /\ v \preceq a.target
                          ELSE a.target \preceq v /\ v \preceq a.init)>>,
     <<"C04.amp.moves-linearly-with-height", ev.res = "ok" => v = AmpAt(a.init, a.target, a.now, a.start, a.stop)>> >>

EvChecks(ev) ==
  CASE ev.ev = "cpswap" -> CpEv(ev)
    [] ev.ev = "st2swap" -> St2SwapEv(ev)
    [] ev.ev = "st2dep" -> St2DepEv(ev)
    [] ev.ev = "st3swap" -> St3SwapEv(ev)
    [] ev.ev = "st3dep" -> St3DepEv(ev)
    [] ev.ev = "amp" -> AmpEv(ev)
    [] ev.ev = "weight" -> WeightEv(ev)
    [] ev.ev = "cpround" -> CpRoundEv(ev)
    [] ev.ev = "maxspread" -> MaxSpreadEv(ev)
    [] ev.ev = "reset" -> <<>>
    [] OTHER -> << <<"TRACE.unknown-event", FALSE>> >>

Report(ev, bad) ==
  IF bad = {} THEN TRUE
  ELSE PrintT(ToJson([k |-> "BAD", run |-> ev.run, step |-> IF ev.ev = "reset" THEN -1 ELSE ev.step,
                      line |-> l, ev |-> ev.ev, bad |-> bad]))

Init == l = 1
Next == l <= Len(Rec) /\ Report(Rec[l], Failed(EvChecks(Rec[l]))) /\ l' = l + 1
Spec == Init /\ [][Next]_l

Consumed ==
  /\ PrintT(ToJson([k |-> "CONSUMED", consumed |-> TLCGet("stats").diameter - 1, lines |-> Len(Rec)]))
  /\ TLCGet("stats").diameter - 1 = Len(Rec)
=============================================================================
