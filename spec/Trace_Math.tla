----------------------------- MODULE Trace_Math -----------------------------
(* Pure functions as one-event traces: every call of the real math (through   *)
(* the verif_hooks re-exports) is one line; the TLA+ definitions evaluated    *)
(* with the big-number back end are the oracle.  Stateless: the only variable *)
(* is the position in the trace.                                              *)
EXTENDS Pool, Json, IOUtils

Rec == ndJsonDeserialize(IOEnv.TRACE)
VARIABLE l

FeesOf(a) == [p |-> a.fees.p, s |-> a.fees.s, b |-> a.fees.b]

CpEv(ev) ==
  LET a == ev.args  f == FeesOf(a)  impl == CpSwap(a.op, a.ak, a.off, f) IN
  << <<"C02.aborts-though-result-fits", CpFits(impl) => ev.res = "ok">>,
     <<"C02.fees-valid-input", FeesValid(f)>> >>
  \o (IF ev.res = "ok"
      THEN CpRules(a.op, a.ak, a.off, f, ev.out)
           \o << <<"drift.cpswap",
                    /\ impl.ret = ev.out.ret /\ impl.sf = ev.out.sf /\ impl.pf = ev.out.pf
                    /\ impl.bf = ev.out.bf /\ impl.spread = ev.out.spread>> >>
      ELSE <<>>)

CpRoundEv(ev) ==
  LET a == ev.args  f == FeesOf(a)  b == BackReserves(a.op, a.ak, a.off, ev.out) IN
  CpEv(ev)
  \o << <<"C02.roundtrip.inputs", ev.args2.op = b.op /\ ev.args2.ak = b.ak /\ ev.args2.off = b.off>>,
        <<"C02.roundtrip.no-profit", ev.res2 = "ok" => ev.out2.ret \preceq a.off>>,
        <<"C02.roundtrip.back-aborts-though-fits",
           CpFits(CpSwap(b.op, b.ak, b.off, f)) => ev.res2 = "ok">> >>
  \o (IF ev.res2 = "ok" THEN CpRules(b.op, b.ak, b.off, f, ev.out2) ELSE <<>>)

MaxSpreadEv(ev) ==
  LET a == ev.args IN
  << <<"C15.accepted=>bound", ev.res = "ok" => SpreadBound(a.offer, a.gross, a.spread, a.ms, a.bp)>>,
     <<"C15.inside=>accepted", SpreadInside(a.offer, a.gross, a.spread, a.ms, a.bp) => ev.res = "ok">> >>

\* incentive weight: three calls (d1,a1), (d1,a2), (d2,a1) with a1 <= a2 and d1 <= d2 inside the allowed range
WeightEv(ev) ==
  << <<"C13.weight.defined-on-the-allowed-range", ev.res = "ok">>,
     <<"C13.weight>=amount", ev.res = "ok" => ev.args.a1 \preceq ev.out.w11 /\ ev.args.a2 \preceq ev.out.w12>>,
     <<"C13.weight.non-decreasing-in-amount", ev.res = "ok" => ev.out.w11 \preceq ev.out.w12>>,
     <<"C13.weight.non-decreasing-in-duration", ev.res = "ok" => ev.out.w11 \preceq ev.out.w21>> >>

EvChecks(ev) ==
  CASE ev.ev = "cpswap" -> CpEv(ev)
    [] ev.ev = "weight" -> WeightEv(ev)
    [] ev.ev = "cpround" -> CpRoundEv(ev)
    [] ev.ev = "maxspread" -> MaxSpreadEv(ev)
    [] ev.ev = "reset" -> <<>>
    [] OTHER -> << <<"TRACE.unknown-event", FALSE>> >>

Report(ev, bad) ==
  IF bad = {} THEN TRUE
  ELSE PrintT(ToJson([k |-> "BAD", run |-> ev.run, step |-> IF ev.ev = "reset" THEN -1 ELSE ev.step,
                      line |-> l, ev |-> ev.ev, bad |-> bad]))

Init == l = 1
Next == l <= Len(Rec) /\ Report(Rec[l], Failed(EvChecks(Rec[l]))) /\ l' = l + 1
Spec == Init /\ [][Next]_l

Consumed ==
  /\ PrintT(ToJson([k |-> "CONSUMED", consumed |-> TLCGet("stats").diameter - 1, lines |-> Len(Rec)]))
  /\ TLCGet("stats").diameter - 1 = Len(Rec)
=============================================================================
