----------------------------- MODULE Trace_Math -----------------------------
(* Pure functions as one-event traces: every call of the real math (through   *)
(* the verif_hooks re-exports) is one line; the TLA+ definitions evaluated    *)
(* with the big-number back end are the oracle.  Stateless: the only variable *)
(* is the position in the trace.                                              *)
EXTENDS Pool, Stable, Json, IOUtils

Rec == ndJsonDeserialize(IOEnv.TRACE)
VARIABLE l

FeesOf(a) == [p |-> a.fees.p, s |-> a.fees.s, b |-> a.fees.b]

CpEv(ev) ==
  LET a == ev.args  f == FeesOf(a)  impl == CpSwap(a.op, a.ak, a.off, f) IN
  << <<"C02.aborts-though-result-fits", CpFits(impl) => ev.res = "ok">>,
     <<"C02.fees-valid-input", FeesValid(f)>> >>
  \o (IF ev.res = "ok"
      THEN CpRules(a.op, a.ak, a.off, f, ev.out)
           \o << <<"drift.cpswap",
                    /\ impl.ret = ev.out.ret /\ impl.sf = ev.out.sf /\ impl.pf = ev.out.pf
                    /\ impl.bf = ev.out.bf /\ impl.spread = ev.out.spread>> >>
      ELSE <<>>)

CpRoundEv(ev) ==
  LET a == ev.args  f == FeesOf(a)  b == BackReserves(a.op, a.ak, a.off, ev.out) IN
  CpEv(ev)
  \o << <<"C02.roundtrip.inputs", ev.args2.op = b.op /\ ev.args2.ak = b.ak /\ ev.args2.off = b.off>>,
        <<"C02.roundtrip.no-profit", ev.res2 = "ok" => ev.out2.ret \preceq a.off>>,
        <<"C02.roundtrip.back-aborts-though-fits",
           CpFits(CpSwap(b.op, b.ak, b.off, f)) => ev.res2 = "ok">> >>
  \o (IF ev.res2 = "ok" THEN CpRules(b.op, b.ak, b.off, f, ev.out2) ELSE <<>>)

MaxSpreadEv(ev) ==
  LET a == ev.args IN
  << <<"C15.accepted=>bound", ev.res = "ok" => SpreadBound(a.offer, a.gross, a.spread, a.ms, a.bp)>>,
     <<"C15.inside=>accepted", SpreadInside(a.offer, a.gross, a.spread, a.ms, a.bp) => ev.res = "ok">> >>

\* incentive weight: three calls (d1,a1), (d1,a2), (d2,a1) with a1 <= a2 and d1 <= d2 inside the allowed range
WeightEv(ev) ==
  << <<"C13.weight.defined-on-the-allowed-range", ev.res = "ok">>,
     <<"C13.weight>=amount", ev.res = "ok" => ev.args.a1 \preceq ev.out.w11 /\ ev.args.a2 \preceq ev.out.w12>>,
     <<"C13.weight.non-decreasing-in-amount", ev.res = "ok" => ev.out.w11 \preceq ev.out.w12>>,
     <<"C13.weight.non-decreasing-in-duration", ev.res = "ok" => ev.out.w11 \preceq ev.out.w21>> >>

\* ---- two-asset stableswap (C03): reserves normalised to 18 decimals, curve solved independently -------------
Norm(x, dec) == x ** Pow(N(10), 18 - dec)
GrossOf(o) == ((o.ret ++ o.sf) ++ o.pf) ++ o.bf
\* rounding dust, in normalised units: the code truncates D and the offer side to the ask precision and solves y to one
\* ask base unit; each is worth at most one ask unit times the local slope of the curve (how much y moves when x moves by
\* one ask unit), which is measured on the independent curve itself
Dust2(X1, D, amp, da) ==
  LET U == Pow(N(10), 18 - da)
      slope == (Ystar2(NMax(X1 -- U, One), D, amp) -- Ystar2(X1, D, amp)) // U
  IN (N(4) ++ (N(4) ** slope)) ** U
St2SwapEv(ev) ==
  LET a == ev.args
      X == Norm(a.op, a.do)  Y == Norm(a.ak, a.da)  amp == a.amp
      inDomain == Pow(N(10), a.do) \preceq a.op /\ Pow(N(10), a.da) \preceq a.ak   \* one whole token of each
      f == [p |-> a.fees.p, s |-> a.fees.s, b |-> a.fees.b]
  IN IF ~inDomain \/ ev.res # "ok" THEN <<>>
     ELSE LET D == Dstar2(X, Y, amp)
              X1 == X ++ Norm(a.off, a.do)
              g == GrossOf(ev.out)
          IN << <<"C03.swap.proceeds<=ask-reserve", g \preceq a.ak>>,
                <<"C03.swap.ask-reserve-not-below-the-curve",
                   g \preceq a.ak => (Norm(a.ak -- g, a.da) ++ Dust2(X1, D, amp, a.da)) \succeq Ystar2(X1, D, amp)>>,
                <<"C03.swap.fees=floor(share*gross)",
                   ev.out.sf = MulFloor(g, f.s) /\ ev.out.pf = MulFloor(g, f.p) /\ ev.out.bf = MulFloor(g, f.b)>>,
                <<"C03.swap.proceeds-monotone-in-offer", ev.res2 = "ok" => g \preceq GrossOf(ev.out2)>> >>
St2DepEv(ev) ==
  LET a == ev.args
      A0 == Norm(a.pa, a.da)  B0 == Norm(a.pb, a.db)
      A1 == Norm(a.pa ++ a.xa, a.da)  B1 == Norm(a.pb ++ a.xb, a.db)
      inDomain == Pow(N(10), a.da) \preceq a.pa /\ Pow(N(10), a.db) \preceq a.pb
  IN IF ~inDomain \/ ev.res # "ok" THEN <<>>
     ELSE LET D0 == Dstar2(A0, B0, a.amp)  D1 == Dstar2(A1, B1, a.amp) IN
          \* minted / S <= (D1 - D0) / D0, with one LP unit and one unit of D of slack; equal decimals and
          \* unequal decimals are judged under different names (known finding S10 for the latter)
          << <<IF a.da = a.db THEN "C03.deposit.mint<=proportional-increase-of-the-invariant"
               ELSE "C03.deposit.mint<=proportional-increase-of-the-invariant(unequal-decimals)",
               ((ev.out.minted -- One) ** D0) \preceq (a.S ** ((D1 -- D0) ++ Two))>> >>

\* ---- three-asset curve (C04): raw base units -----------------------------------------------------------------
Dust3(x1, uns, D, amp) ==
  LET slope == Ystar3(NMax(x1 -- One, One), uns, D, amp) -- Ystar3(x1, uns, D, amp) IN N(3) ++ (N(3) ** slope)
St3SwapEv(ev) ==
  LET a == ev.args IN
  IF ev.res # "ok" THEN <<>>
  ELSE LET D == Dstar3(a.src, a.dst, a.uns, a.amp)
           x1 == a.src ++ a.amt
           dy == ev.out.dy
       IN << <<"C04.swap.proceeds<=reserve", dy \preceq a.dst>>,
             <<"C04.swap.reserve-not-below-the-curve",
                dy \preceq a.dst => ((a.dst -- dy) ++ Dust3(x1, a.uns, D, a.amp)) \succeq Ystar3(x1, a.uns, D, a.amp)>>,
             <<"C04.swap.there-and-back-never-profits", ev.res2 = "ok" => ev.out2.dx \preceq a.amt>> >>
St3DepEv(ev) ==
  LET a == ev.args IN
  IF ev.res # "ok" THEN <<>>
  ELSE LET D0 == Dstar3(a.pa, a.pb, a.pc, a.amp)
           D1 == Dstar3(a.pa ++ a.xa, a.pb ++ a.xb, a.pc ++ a.xc, a.amp)
       IN << <<"C04.deposit.mint<=proportional-increase-of-the-invariant",
                ((ev.out.minted -- One) ** D0) \preceq (a.S ** ((D1 -- D0) ++ Two))>> >>
AmpEv(ev) ==
  LET a == ev.args  v == ev.out.amp IN
  << <<"C04.amp.computed", ev.res = "ok">>,
     <<"C04.amp.between-start-and-target",
        ev.res = "ok" => (IF a.init \preceq a.target THEN a.init \preceq v /\ v \preceq a.target
                          ELSE a.target \preceq v /\ v \preceq a.init)>>,
     <<"C04.amp.moves-linearly-with-height", ev.res = "ok" => v = AmpAt(a.init, a.target, a.now, a.start, a.stop)>> >>

EvChecks(ev) ==
  CASE ev.ev = "cpswap" -> CpEv(ev)
    [] ev.ev = "st2swap" -> St2SwapEv(ev)
    [] ev.ev = "st2dep" -> St2DepEv(ev)
    [] ev.ev = "st3swap" -> St3SwapEv(ev)
    [] ev.ev = "st3dep" -> St3DepEv(ev)
    [] ev.ev = "amp" -> AmpEv(ev)
    [] ev.ev = "weight" -> WeightEv(ev)
    [] ev.ev = "cpround" -> CpRoundEv(ev)
    [] ev.ev = "maxspread" -> MaxSpreadEv(ev)
    [] ev.ev = "reset" -> <<>>
    [] OTHER -> << <<"TRACE.unknown-event", FALSE>> >>

Report(ev, bad) ==
  IF bad = {} THEN TRUE
  ELSE PrintT(ToJson([k |-> "BAD", run |-> ev.run, step |-> IF ev.ev = "reset" THEN -1 ELSE ev.step,
                      line |-> l, ev |-> ev.ev, bad |-> bad]))

Init == l = 1
Next == l <= Len(Rec) /\ Report(Rec[l], Failed(EvChecks(Rec[l]))) /\ l' = l + 1
Spec == Init /\ [][Next]_l

Consumed ==
  /\ PrintT(ToJson([k |-> "CONSUMED", consumed |-> TLCGet("stats").diameter - 1, lines |-> Len(Rec)]))
  /\ TLCGet("stats").diameter - 1 = Len(Rec)
=============================================================================
