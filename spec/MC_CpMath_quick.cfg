SPECIFICATION Spec
CONSTANTS
  DEC = 100
  U128MAX = 255
  NTop = 24
  Grid = {0, 1, 5, 10, 30, 33, 50, 99}
INVARIANT C02Holds
CHECK_DEADLOCK FALSE
