SPECIFICATION Spec
CONSTANTS
  DEC = 10
  U128MAX = 100000
  MaxD = 4
  Keep = 0
INVARIANTS ClausesHold
CHECK_DEADLOCK FALSE
