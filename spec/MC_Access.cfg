SPECIFICATION Spec
CONSTRAINT Small
INVARIANTS Coherent PositiveListed Emit
CHECK_DEADLOCK FALSE
