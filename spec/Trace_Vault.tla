----------------------------- MODULE Trace_Vault -----------------------------
(* Trace validation of real vault / vault-router executions against Vault.tla. *)
(* Flash-loan events carry the adversary's script; the specification runs the  *)
(* same script on its own state (transaction semantics of Vault.tla, with the   *)
(* code's formulas) and the property clauses of C05/C06/C07 are evaluated on    *)
(* the observed step.                                                           *)
EXTENDS Vault, Json, IOUtils

Rec == ndJsonDeserialize(IOEnv.TRACE)

VARIABLES l, st, last
vars == <<l, st, last>>

StOf(kind, own, o, dueAll) ==
  [ bal |-> o.bal, fee |-> o.fee, feeAll |-> o.feeAll, burned |-> o.burned, col |-> o.col, circ |-> o.circ,
    S |-> o.S, loans |-> o.loans, lp |-> o.lp, w |-> o.w, aw |-> o.aw, rb |-> o.rb, fees |-> o.fees,
    tog |-> o.tog, dueAll |-> dueAll, kind |-> kind, own |-> own ]

NoLast == [ev |-> "none"]

ObsChecks(exp, o) ==
  << <<"C05.obs.balance", exp.bal = o.bal>>,
     <<"C05.obs.lp-supply", exp.S = o.S>>,
     <<"C05.obs.lp-holdings", \A h \in Holders : exp.lp[h] = o.lp[h]>>,
     <<"C05.obs.wallets", (\A u \in Users : exp.w[u] = o.w[u]) /\ exp.aw = o.aw>>,
     <<"C06.obs.router-balance", exp.rb = o.rb>>,
     <<"C07.obs.pending-ledger", exp.fee = o.fee>>,
     <<"C07.obs.alltime-ledger", exp.feeAll = o.feeAll>>,
     <<"C07.obs.burned-ledger", exp.burned = o.burned>>,
     <<"C07.obs.collector", exp.col = o.col>>,
     <<"C07.obs.circulating", exp.circ = o.circ>>,
     <<"C18.obs.fees", exp.fees = o.fees>>,
     <<"C17.obs.toggles", exp.tog = o.tog>> >>

\* the same comparison, reported as drift: used where the expected state depends on today's formulas
DriftChecks(exp, o) ==
  << <<"drift.tx.state",
        /\ exp.bal = o.bal /\ exp.S = o.S /\ exp.fee = o.fee /\ exp.feeAll = o.feeAll /\ exp.burned = o.burned
        /\ exp.col = o.col /\ exp.aw = o.aw /\ exp.rb = o.rb /\ \A h \in Holders : exp.lp[h] = o.lp[h]>> >>

Globals(s, t) == StateChecks(t) \o StepChecks(s, t) \o << <<"C18.fees.valid", VaultFeesValid(t.fees)>> >>

Unchanged(ev, t, tag) ==
  << <<tag \o ".rejected.unchanged", t = st>>,
     <<tag \o ".rejected.digest", ev.dpre = ev.dpost>> >>

DepositEv(ev, t) ==
  LET amt == ev.args.amt  who == ev.actor  m == ev.out.minted IN
  IF ev.res = "ok"
  THEN DepositChecks(st, amt, m)
       \o << <<"drift.deposit.minted", (st.S = Zero \/ Zero \prec VR(st)) => m = ImplMint(st, amt)>> >>
       \o ObsChecks(DepositNext(st, who, amt, m), ev.obs)
  ELSE Unchanged(ev, t, "C05")

WithdrawEv(ev, t) ==
  LET sh == ev.args.shares  who == ev.actor  paid == ev.out.paid IN
  IF ev.res = "ok"
  THEN WithdrawChecks(st, who, sh, paid)
       \o << <<"C14.share-query=withdrawal", ev.pre.share.res = "ok" /\ ev.pre.share.paid = paid>>,
             <<"C05.withdraw.attribute=transfer", ev.out.attr = paid>>,
             <<"C05.deposit-then-withdraw",
                ( /\ last.ev = "deposit" /\ last.actor = who /\ last.minted = sh
                  /\ (Zero \prec last.preS \/ last.preBal = Zero) ) => paid \preceq last.amt>>,
             <<"drift.withdraw.paid", Zero \prec st.S => paid = ImplPaid(st, sh)>> >>
       \o ObsChecks(WithdrawNext(st, who, sh, paid), ev.obs)
  ELSE Unchanged(ev, t, "C05")

CollectEv(ev, t) ==
  IF ev.res = "ok"
  THEN CollectChecks(st, ev.out.sent)
       \o << <<"C07.collect.share-assets-unchanged", VR(t) = VR(st)>> >>
       \o ObsChecks(CollectNext(st, ev.out.sent), ev.obs)
  ELSE Unchanged(ev, t, "C07")

SetFeesEv(ev, t) ==
  LET f == [p |-> ev.args.p, f |-> ev.args.f, b |-> ev.args.b] IN
  IF ev.res = "ok"
  THEN << <<"C18.setfees.accepted-valid", VaultFeesValid(f)>>,
          <<"C16.setfees.owner-only", ev.actor = "owner">> >>
       \o ObsChecks(SetFeesNext(st, f), ev.obs)
  ELSE Unchanged(ev, t, "C18")
       \o << <<"C18.setfees.valid-by-owner-rejected", ~(ev.actor = "owner" /\ VaultFeesValid(f))>> >>

\* the three pause switches (C17): an update names each switch or leaves it alone
SetTogEv(ev, t) ==
  LET pick(x, cur) == IF x = "none" THEN cur ELSE x = "on"
      g == [d |-> pick(ev.args.d, st.tog.d), w |-> pick(ev.args.w, st.tog.w), l |-> pick(ev.args.l, st.tog.l)] IN
  IF ev.res = "ok"
  THEN << <<"C16.settog.owner-only", ev.actor = "owner">> >> \o ObsChecks([st EXCEPT !.tog = g], ev.obs)
  ELSE Unchanged(ev, t, "C17") \o << <<"C17.settog.by-owner-rejected", ev.actor # "owner">> >>
\* a paused operation is refused whatever the vault's asset, and only its own switch pauses it
TogChecks(ev) ==
  LET mine == CASE ev.ev = "deposit" -> st.tog.d [] ev.ev \in {"withdraw", "wdirect"} -> st.tog.w
                [] ev.ev \in {"loan", "rloan"} -> st.tog.l [] OTHER -> TRUE IN
  << <<"C17.accepted-only-while-its-switch-is-on", ev.res = "ok" => mine>>,
     <<"C17.refused-as-disabled-only-by-its-own-switch",
        (ev.ev \in {"deposit", "withdraw"} /\ ev.res # "ok" /\ ev.disabled) => ~mine>> >>

DonateEv(ev, t) ==
  IF ev.res = "ok" THEN ObsChecks(DonateNext(st, ev.actor, ev.args.x), ev.obs) ELSE Unchanged(ev, t, "C05")

\* is the script exactly <<repay x>> ?
IsSingleRepay(sub, x) == Len(sub) = 1 /\ sub[1].a = "repay" /\ sub[1].x = x
\* ... or a single repayment of at least x that the borrower can afford
IsSingleRepayAtLeast(sub, x, afford) == Len(sub) = 1 /\ sub[1].a = "repay" /\ x \preceq sub[1].x /\ sub[1].x \preceq afford

\* "the quoted payback amount" is what GetPaybackAmount answers: the loan plus each fee = floor(share * loan).  The
\* clauses about exact repayment are stated on the specification's own Payback; this one ties the quote to it.
QuoteChecks(q, amt) ==
  << <<"C06.quote=loan+floor-fees",
        q.res = "ok" => (/\ q.pf = MulFloor(amt, st.fees.p) /\ q.ff = MulFloor(amt, st.fees.f) /\ q.bf = MulFloor(amt, st.fees.b)
                         /\ q.payback = Payback(st, amt))>> >>

LoanEv(ev, t) ==
  LET script == ev.args.script
      amt == script[1].x
      sub == script[1].sub
      pred == RunScript(st, script, "vault")          \* the specification's own run of the transaction
      valid == st.tog.l /\ Zero \prec amt /\ amt \preceq st.bal
  IN QuoteChecks(ev.pre.quote, amt) \o
     << <<"C06.exact-payback-suffices",
           (valid /\ IsSingleRepayAtLeast(sub, Payback(st, amt), st.aw ++ amt)) => ev.res = "ok">>,
        <<"C06.one-unit-less-never-suffices",
           (valid /\ IsSingleRepay(sub, Payback(st, amt) -- One)) => ev.res # "ok">>,
        <<"drift.tx.verdict", pred.ok = (ev.res = "ok")>> >>
     \o (IF ev.res = "ok"
         THEN LoanTxChecks(st, t, script) \o (IF pred.ok THEN DriftChecks(pred.s, ev.obs) ELSE <<>>)
         ELSE Unchanged(ev, t, "C06"))

RECURSIVE SumRepay(_)
SumRepay(sub) == IF sub = <<>> THEN Zero ELSE Head(sub).x ++ SumRepay(Tail(sub))
RouterLoanEv(ev, t) ==
  LET amt == ev.args.amt  sub == ev.args.script  u == ev.actor
      att == ev.args.att
      pred == RunRouterLoanA(st, u, amt, sub, att)
      script == <<[a |-> "loan", x |-> amt, sub |-> sub]>>
      valid == st.tog.l /\ Zero \prec amt /\ amt \preceq st.bal
      fees == Payback(st, amt) -- amt
  IN QuoteChecks(ev.pre.quote, amt) \o
     << <<"C06.router.fees-only-suffice",
           \* (the borrower hands the router the fees, or more: the router still holds the loan itself)
           (valid /\ st.rb = Zero /\ Zero \prec fees /\ IsSingleRepayAtLeast(sub, fees, st.aw)) => ev.res = "ok">>,
        <<"C06.router.one-unit-less-never-suffices",
           \* (coins attached by the initiator are the initiator's own contribution: they can cover the missing unit)
           (valid /\ st.rb = Zero /\ att = Zero /\ Zero \prec fees /\ IsSingleRepay(sub, fees -- One)) => ev.res # "ok">>,
        <<"drift.tx.verdict", pred.ok = (ev.res = "ok")>> >>
     \o (IF ev.res = "ok"
         THEN LoanTxChecks(st, t, script)
              \o << <<"C06.router.keeps-nothing", t.rb = Zero>>,
                    \* everything the router held - the loan, the coins the initiator attached, what the payload handed it -
                    \* minus the quoted payback goes to the initiator and to nobody else (exact when the payload only repays;
                    \* otherwise, without attached coins, the initiator at least loses nothing)
                    <<"C06.router.rest-to-initiator-only",
                       /\ \A v \in Users \ {u} : t.w[v] = st.w[v]
                       /\ IF \A i \in DOMAIN sub : sub[i].a = "repay"
                          THEN (t.w[u] ++ Payback(st, amt)) = ((st.w[u] ++ amt) ++ SumRepay(sub))
                          ELSE att = Zero => st.w[u] \preceq t.w[u]>> >>
              \o (IF pred.ok THEN DriftChecks(pred.s, ev.obs) ELSE <<>>)
         ELSE Unchanged(ev, t, "C06"))

EvChecks(ev, t) ==
  (CASE ev.ev = "deposit" -> DepositEv(ev, t)
     [] ev.ev = "withdraw" -> WithdrawEv(ev, t)
     \* the direct Withdraw message hands in no cw20 shares: it must be refused (an accepted one is judged as a withdrawal)
     [] ev.ev = "wdirect" -> WithdrawEv(ev, t) \o << <<"C05.withdraw.only-against-shares", ev.res # "ok">> >>
     [] ev.ev = "collect" -> CollectEv(ev, t)
     [] ev.ev = "setfees" -> SetFeesEv(ev, t)
     [] ev.ev = "settog" -> SetTogEv(ev, t)
     [] ev.ev = "donate" -> DonateEv(ev, t)
     [] ev.ev = "loan" -> LoanEv(ev, t)
     [] ev.ev = "rloan" -> RouterLoanEv(ev, t)
     [] OTHER -> << <<"TRACE.unknown-event", FALSE>> >>)
  \o Globals(st, t) \o TogChecks(ev)

ResetChecks(t) ==
  << <<"C17.fresh.all-enabled", t.tog.d /\ t.tog.w /\ t.tog.l>>,
     <<"C05.fresh.empty", t.S = Zero /\ t.fee = Zero>> >> \o StateChecks(t)

Report(ev, bad) ==
  IF bad = {} THEN TRUE
  ELSE PrintT(ToJson([k |-> "BAD", run |-> ev.run, step |-> IF ev.ev = "reset" THEN -1 ELSE ev.step,
                      line |-> l, ev |-> ev.ev, bad |-> bad]))

Init == l = 1 /\ st = [S |-> "none"] /\ last = NoLast

Next ==
  /\ l <= Len(Rec)
  /\ LET ev == Rec[l] IN
       IF ev.ev = "reset"
       THEN LET t == StOf(ev.cfg.kind, ev.cfg.adv_owns, ev.obs, Zero) IN
            /\ Report(ev, Failed(ResetChecks(t)))
            /\ st' = t /\ last' = NoLast
       ELSE LET t == StOf(st.kind, st.own, ev.obs, st.dueAll) IN
            /\ Report(ev, Failed(EvChecks(ev, t)))
            \* resynchronise on the observation, except for the configured fees, which the specification owns: the triple
            \* in force is the one the last accepted update set
            /\ st' = [t EXCEPT !.fees = IF ev.ev = "setfees" /\ ev.res = "ok"
                                        THEN [p |-> ev.args.p, f |-> ev.args.f, b |-> ev.args.b] ELSE st.fees]
            /\ last' = IF ev.ev = "deposit" /\ ev.res = "ok"
                       THEN [ev |-> "deposit", actor |-> ev.actor, amt |-> ev.args.amt,
                             minted |-> ev.out.minted, preS |-> st.S, preBal |-> st.bal]
                       ELSE NoLast
  /\ l' = l + 1

Spec == Init /\ [][Next]_vars

Consumed ==
  /\ PrintT(ToJson([k |-> "CONSUMED", consumed |-> TLCGet("stats").diameter - 1, lines |-> Len(Rec)]))
  /\ TLCGet("stats").diameter - 1 = Len(Rec)
=============================================================================
