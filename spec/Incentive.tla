------------------------------- MODULE Incentive -------------------------------
(* Incentive contract (C11 custody of staked LP, C12 flows, C13 weights / claims). *)
(* The state is the observation record o of the contract and its users:            *)
(*   open : [Users -> Seq([dur, amt])] ; closed : [Users -> Num] (sum of closed positions)       *)
(*   wlp : [Users -> Num] LP wallets ; lpbal : Num ; rw : [Users -> [Rewards -> Num]] wallets    *)
(*   rbal, col : [Rewards -> Num] ; flows : Seq([id, creator, asset, funded, claimed, ...])      *)
(*   gw : Num ; aw : [Users -> Num] ; epoch ; snapshot : BOOLEAN ; share : [Users -> Num]        *)
(* Rules relate the observation before (s) and after (t) one call.                               *)
EXTENDS Emission, FiniteSets, TLC

CONSTANTS Users, Rewards

RECURSIVE SumAmt(_)
SumAmt(sq) == IF sq = <<>> THEN Zero ELSE Head(sq).amt ++ SumAmt(Tail(sq))
SetSum(f, D) == LET RECURSIVE go(_)
                    go(X) == IF X = {} THEN Zero ELSE LET x == CHOOSE y \in X : TRUE IN f[x] ++ go(X \ {x})
                IN go(D)
OpenOf(o, u) == SumAmt(o.open[u])
PosAmt(o, u, dur) == SumAmt(SelectSeq(o.open[u], LAMBDA p : p.dur = dur))
HasPos(o, u, dur) == \E i \in DOMAIN o.open[u] : o.open[u][i].dur = dur
Staked(o) == SetSum([u \in Users |-> OpenOf(o, u) ++ o.closed[u]], Users)
FlowsOf(o, a) == SelectSeq(o.flows, LAMBDA f : f.asset = a)
RECURSIVE SumOwed(_)
SumOwed(sq) == IF sq = <<>> THEN Zero ELSE (Head(sq).funded -- Head(sq).claimed) ++ SumOwed(Tail(sq))
FlowById(o, id) == LET m == SelectSeq(o.flows, LAMBDA f : f.id = id) IN IF m = <<>> THEN [id |-> -1] ELSE m[1]
OthersSame(s, t, keep) ==
  \A v \in Users \ keep : t.open[v] = s.open[v] /\ t.closed[v] = s.closed[v] /\ t.wlp[v] = s.wlp[v]

\* ----- C11 ---------------------------------------------------------------------------------------
\* "lp" names the staked LP asset itself when it is (also) used as a reward asset: its flows' unclaimed funds sit in the
\* same balance as the positions
LpFlowFunds(o) == IF "lp" \in Rewards THEN SumOwed(FlowsOf(o, "lp")) ELSE Zero
StateChecksC11(o) ==
  << <<"C11.lp-balance=open+closed+flow-funds", o.lpbal = Staked(o) ++ LpFlowFunds(o)>> >>

OpenChecks(s, t, u, r, dur, amt, expand) ==
  << <<"C11.position.grows-by-the-stated-amount", PosAmt(t, r, dur) = PosAmt(s, r, dur) ++ amt>>,
     <<"C11.position.only-if-lp-was-received", t.lpbal = s.lpbal ++ amt /\ t.wlp[u] = s.wlp[u] -- amt>>,
     <<"C11.position.open-needs-no-existing-expand-needs-existing", expand = HasPos(s, r, dur)>>,
     <<"C11.position.nobody-else-affected",
        OthersSame(s, t, {u, r}) /\ (r # u => (t.wlp[r] = s.wlp[r] /\ t.closed[r] = s.closed[r] /\ t.open[u] = s.open[u]))>> >>
CloseChecks(s, t, u, dur) ==
  << <<"C11.close.moves-the-whole-position", HasPos(s, u, dur) /\ ~HasPos(t, u, dur)
                                             /\ t.closed[u] = s.closed[u] ++ PosAmt(s, u, dur)>>,
     <<"C11.close.no-funds-move", t.lpbal = s.lpbal /\ t.wlp[u] = s.wlp[u]>>,
     <<"C11.close.nobody-else-affected", OthersSame(s, t, {u})>> >>
WithdrawChecks(s, t, u) ==
  << <<"C11.withdraw.returns-exactly-own-closed-positions",
        t.wlp[u] = s.wlp[u] ++ s.closed[u] /\ t.closed[u] = Zero /\ t.lpbal = s.lpbal -- s.closed[u]>>,
     <<"C11.withdraw.open-positions-untouched", t.open[u] = s.open[u]>>,
     <<"C11.withdraw.nobody-else-affected", OthersSame(s, t, {u})>> >>

\* ----- C12 ---------------------------------------------------------------------------------------
StateChecksC12(o) ==
  << <<"C12.reward-balance-covers-funded-minus-claimed",
        \A a \in Rewards : (SumOwed(FlowsOf(o, a)) ++ (IF a = "lp" THEN Staked(o) ELSE Zero)) \preceq o.rbal[a]>>,
     <<"C12.claimed<=funded", \A i \in DOMAIN o.flows : o.flows[i].claimed \preceq o.flows[i].funded>> >>

\* a new flow appeared in t: its funded amount is what the contract received; the fee went to the collector
OpenFlowChecks(s, t, u, feeAsset, fee) ==
  LET newIds == { t.flows[i].id : i \in DOMAIN t.flows } \ { s.flows[i].id : i \in DOMAIN s.flows } IN
  << <<"C12.openflow.one-new-flow", Cardinality(newIds) = 1 /\ Len(t.flows) = Len(s.flows) + 1>>,
     <<"C12.openflow.funded=tokens-received",
        Cardinality(newIds) = 1 =>
          LET f == FlowById(t, CHOOSE i \in newIds : TRUE) IN
            /\ f.creator = u /\ f.claimed = Zero
            \* (an over-paid native fee that is not refunded stays in the contract: other assets may only grow)
            /\ \A a \in Rewards : IF a = f.asset THEN t.rbal[a] -- s.rbal[a] = f.funded ELSE s.rbal[a] \preceq t.rbal[a]>>,
     <<"C12.openflow.fee-to-collector",
        \A a \in Rewards : t.col[a] -- s.col[a] = (IF a = feeAsset THEN fee ELSE Zero)>> >>
\* A flow is named by its id or by its label (labels need not be unique: ident = [k |-> "id" | "label", id, label])
Carries(f, ident) == IF ident.k = "id" THEN f.id = ident.id ELSE f.label = ident.label
ExpandFlowChecks(s, t, ident) ==
  \* the flow the expansion touched is read off the state: the one whose record changed
  LET changed == { s.flows[i].id : i \in { j \in DOMAIN s.flows : FlowById(t, s.flows[j].id) # s.flows[j] } }
      f0 == IF changed = {} THEN [id |-> -1] ELSE FlowById(s, CHOOSE x \in changed : TRUE)
      f1 == IF changed = {} THEN [id |-> -1] ELSE FlowById(t, f0.id) IN
  \* a flow older than the expansion limit is re-based by the expansion (claimed := 0, funded := what was left), so the
  \* clause speaks about funded minus claimed, which the tokens received must raise by exactly their amount
  << <<"C12.expandflow.funded-grows-by-tokens-received",
        f0.id # -1 /\ f1.id # -1 /\ f1.asset = f0.asset /\ (f1.claimed = f0.claimed \/ f1.claimed = Zero)
        /\ f0.claimed \preceq f0.funded /\ f1.claimed \preceq f1.funded
        /\ (f0.funded -- f0.claimed) \preceq (f1.funded -- f1.claimed)
        /\ \A a \in Rewards : t.rbal[a] -- s.rbal[a] =
              (IF a = f0.asset THEN (f1.funded -- f1.claimed) -- (f0.funded -- f0.claimed) ELSE Zero)>>,
     <<"C12.expandflow.other-flows-untouched",
        Cardinality(changed) = 1 /\ Carries(f0, ident) /\ Len(t.flows) = Len(s.flows)>> >>
CloseFlowChecks(s, t, caller, ident, callerIsOwner) ==
  \* the flow that was closed is read off the state: the one that is gone
  LET gone == { s.flows[i].id : i \in DOMAIN s.flows } \ { t.flows[i].id : i \in DOMAIN t.flows }
      f == IF Cardinality(gone) = 1 THEN FlowById(s, CHOOSE x \in gone : TRUE) ELSE [id |-> -1] IN
  << <<"C12.closeflow.only-creator-or-factory-owner", f.id # -1 /\ (callerIsOwner \/ f.creator = caller)>>,
     <<"C12.closeflow.flow-removed",
        f.id # -1 /\ Carries(f, ident) /\ Len(t.flows) = Len(s.flows) - 1
        /\ \A i \in DOMAIN s.flows : s.flows[i].id # f.id => FlowById(t, s.flows[i].id) = s.flows[i]>>,
     <<"C12.closeflow.refund=funded-claimed-to-creator",
        f.id # -1 =>
          /\ s.rbal[f.asset] -- t.rbal[f.asset] = f.funded -- f.claimed
          /\ (f.creator \in Users => t.rw[f.creator][f.asset] -- s.rw[f.creator][f.asset] = f.funded -- f.claimed)>> >>
\* what a claim moved: per reward asset, the claimer's gain = the contract's loss = the growth of `claimed`
ClaimedGrowth(s, t, a) ==
  LET RECURSIVE G(_)
      G(i) == IF i = 0 THEN Zero
              ELSE (IF s.flows[i].asset = a /\ FlowById(t, s.flows[i].id).id # -1
                    THEN FlowById(t, s.flows[i].id).claimed -- s.flows[i].claimed ELSE Zero) ++ G(i - 1)
  IN G(Len(s.flows))
ClaimChecks(s, t, u, quoted, quoteOk, lastClaimEpoch) ==
  << <<"C12.claim.payout=ledger-growth=balance-decrease",
        \A a \in Rewards : /\ t.rw[u][a] -- s.rw[u][a] = s.rbal[a] -- t.rbal[a]
                           /\ s.rbal[a] -- t.rbal[a] = ClaimedGrowth(s, t, a)>>,
     <<"C12.claim.flows-only-gain-claimed", Len(t.flows) = Len(s.flows)>>,
     <<"C13.claim.pays-exactly-what-the-rewards-query-quoted",
        quoteOk => \A a \in Rewards : t.rw[u][a] -- s.rw[u][a] = quoted[a]>>,
     <<"C13.claim.second-claim-in-an-epoch-pays-nothing",
        lastClaimEpoch = s.epoch => \A a \in Rewards : t.rw[u][a] = s.rw[u][a]>>,
     \* (a reward paid in the LP asset itself leaves the contract's LP balance for the claimer's wallet; positions stay)
     <<"C11.claim.positions-untouched",
        LET lpPaid == IF "lp" \in Rewards THEN t.rw[u]["lp"] -- s.rw[u]["lp"] ELSE Zero IN
        /\ OthersSame(s, t, {u}) /\ t.open[u] = s.open[u] /\ t.closed[u] = s.closed[u]
        /\ t.wlp[u] = s.wlp[u] ++ lpPaid /\ t.lpbal = s.lpbal -- lpPaid>> >>

\* the (flow, epoch) pairs a claim made in epoch cur can pay for when the claimer's last claim was in epoch lastClaim
\* (-1: never): the epochs after the last claim in which the flow runs
Slots(flows, a, lastClaim, cur) ==
  { <<i, e>> \in (DOMAIN flows) \X ((lastClaim + 1) .. cur) :
      flows[i].asset = a /\ flows[i].start <= e /\ e < FinalEnd(flows[i]) }
\* Every (flow, epoch) is paid with a transfer of its own.  "No claim pays more for an epoch than that epoch's emission":
\* the transfers can be assigned to distinct (flow, epoch) slots so that none exceeds its slot's emission.  Nothing is
\* assumed about the order in which the contract pays: such an assignment exists iff, for every transfer, at least as
\* many slots can carry it as there are transfers at least as large (Hall's condition for nested neighbourhoods).
EmissionChecks(s, t, u, pays, flows, lastClaim) ==
  LET Got(a) == LET RECURSIVE G(_)
                    G(i) == IF i = 0 THEN Zero ELSE (IF pays[i].a = a /\ pays[i].to = u THEN pays[i].x ELSE Zero) ++ G(i - 1)
                IN G(Len(pays))
      Fits(a) == LET P == SelectSeq(pays, LAMBDA p : p.a = a)
                     S == Slots(flows, a, lastClaim, s.epoch)
                     em == [sl \in S |-> Emission(flows[sl[1]], sl[2])]
                 IN \A i \in DOMAIN P :
                      Cardinality({ j \in DOMAIN P : P[i].x \preceq P[j].x }) <= Cardinality({ sl \in S : P[i].x \preceq em[sl] })
  IN << <<"TRACE.claim.transfers-add-up-to-the-wallet-gain",
           \A a \in Rewards : Got(a) = t.rw[u][a] -- s.rw[u][a]>>,
        <<"C13.claim.every-transfer-goes-to-the-claimer", \A i \in DOMAIN pays : pays[i].to = u /\ pays[i].a \in Rewards>>,
        <<"C13.claim.no-epoch-pays-more-than-that-epoch's-emission", \A a \in Rewards : Fits(a)>> >>

\* ----- C13 ---------------------------------------------------------------------------------------
StateChecksC13(o) ==
  << <<"C13.global-weight=sum-of-address-weights", o.gw = SetSum(o.aw, Users)>>,
     <<"C13.weight>=staked-amount", \A u \in Users : OpenOf(o, u) \preceq o.aw[u] \/ o.open[u] = <<>>>>,
     <<"C13.positions-have-weight", \A u \in Users : o.open[u] = <<>> => o.aw[u] = Zero>> >>
\* closedInRun: some position has been closed earlier in this history.  Known finding S9: closing lowers the global
\* weight at once while the closer's per-epoch history keeps (and a later claim re-writes) the old weight, so the
\* shares of an epoch can exceed 100 % once a position has been closed; judged under its own name
SharesChecks(o, closedInRun) ==
  << <<IF closedInRun THEN "C13.epoch-shares<=100%-after-a-position-was-closed"
       ELSE "C13.epoch-shares-add-up-to-at-most-100%",
       o.snapshot => SetSum(o.share, Users) \preceq DEC>> >>
=============================================================================
