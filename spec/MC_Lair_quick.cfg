SPECIFICATION Spec
CONSTANTS
  DEC = 100
  U128MAX = 100000
  Users = {"u1", "u2"}
  Denoms = {"d1", "foreign"}
  PageLimit = 3
  Amt = {1, 2}
  Period = 3
  MaxNow = 7
  Wallet0 = 2
  SchedDepth = 0
  EmitSched = FALSE
  MaxUnb = 3
VIEW View
INVARIANTS StateOK AllPayableAfterPeriod
PROPERTY PaysOnlyRemoved
CHECK_DEADLOCK FALSE
