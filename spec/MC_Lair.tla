------------------------------ MODULE MC_Lair ------------------------------
(* Bounded instance of Lair: all interleavings of bond / unbond / withdraw by *)
(* the users over two whitelisted denoms and one foreign denom, with every    *)
(* placement of time steps {same block, +1, +period-1, +period}.  Also emits  *)
(* every behaviour up to SchedDepth as a schedule for replay on the contract. *)
EXTENDS Lair, Json

CONSTANTS Amt, Period, MaxNow, Wallet0, SchedDepth, EmitSched, MaxUnb

VARIABLES st, hist

Init ==
  /\ st = [ bonded |-> [u \in Users |-> [d \in Denoms |-> 0]], unb |-> <<>>,
            cbal |-> [d \in Denoms |-> 0], w |-> [u \in Users |-> [d \in Denoms |-> Wallet0]],
            now |-> 0, period |-> Period, white |-> Denoms \ {"foreign"} ]
  /\ hist = <<>>

Op(o) == hist' = IF EmitSched THEN Append(hist, o) ELSE hist

Bond(u, d, amt) ==
  /\ amt <= st.w[u][d]
  /\ AllOk(BondChecks(st, u, d, amt, <<[d |-> d, amt |-> amt]>>))
  /\ st' = BondNext(st, u, d, amt) /\ Op([op |-> "bond", u |-> u, d |-> d, a |-> amt])
Unbond(u, d, amt) ==
  /\ AllOk(UnbondChecks(st, u, d, amt)) /\ Len(st.unb) < MaxUnb
  /\ st' = UnbondNext(st, u, d, amt) /\ Op([op |-> "unbond", u |-> u, d |-> d, a |-> amt])
Withdraw(u, d) ==
  LET paid == Payable(st, u, d) IN
  /\ AllOk(WithdrawChecks(st, u, d, paid))
  /\ st' = WithdrawNext(st, u, d, paid) /\ Op([op |-> "withdraw", u |-> u, d |-> d, a |-> 0])
Tick(dt) ==
  /\ st.now + dt <= MaxNow
  /\ st' = TickNext(st, dt) /\ Op([op |-> "tick", u |-> "none", d |-> "none", a |-> dt])

Next ==
  \/ \E u \in Users, d \in Denoms, a \in Amt : Bond(u, d, a) \/ Unbond(u, d, a)
  \/ \E u \in Users, d \in Denoms : Withdraw(u, d)
  \/ \E dt \in {1, Period - 1, Period} : Tick(dt)

Spec == Init /\ [][Next]_<<st, hist>>
View == st
Depth == Len(hist) <= SchedDepth

StateOK == AllOk(StateChecks(st))
\* every unbonded amount is paid at most once, only to its owner, never before maturity:
\* a step never pays more than the records it removes, and only matured ones of the caller
PaysOnlyRemoved ==
  [][\A u \in Users, d \in Denoms :
       st'.w[u][d] \succeq st.w[u][d] /\ st'.w[u][d] # st.w[u][d] /\ st'.bonded = st.bonded =>
         /\ (st'.w[u][d] -- st.w[u][d]) = (PendingOfUser(st, u, d) -- PendingOfUser(st', u, d))
         /\ \A v \in Users \ {u} : PendingOfUser(st', v, d) = PendingOfUser(st, v, d)]_<<st, hist>>
\* nothing is lost: whatever is pending eventually matures in full (after one period everything is payable)
AllPayableAfterPeriod ==
  \A u \in Users, d \in Denoms :
    Len(Mine(st, u, d)) <= PageLimit =>
      Payable(TickNext(st, Period), u, d) = PendingOfUser(st, u, d)
Emit == (EmitSched /\ Len(hist) = SchedDepth) => PrintT(ToJson([k |-> "SCHED", ops |-> hist]))
=============================================================================
