---------------------------- MODULE MC_WeightHist ----------------------------
(* Bounded model of the incentive contract's weight histories (WeightHist.tla): stakers that open and close      *)
(* positions, the permissionless snapshot placed anywhere in an epoch, claims by every staker in every order     *)
(* over a fixed set of flows (some running, possibly one only scheduled, possibly one that has ended).           *)
(* Question (C13): do the weights the share query uses for the running epoch add up to at most the epoch's       *)
(* global-weight snapshot - i.e. do the shares add up to at most 100 % ?                                         *)
(*   MC_WeightHist.cfg            no position is ever closed: yes, for every snapshot placement and claim order  *)
(*   MC_WeightHist_witness_a.cfg  closes, no claims: no - a close before the epoch's snapshot (S9, mechanism a)  *)
(*   MC_WeightHist_witness_b.cfg  closes only after the epoch's snapshot, claims: no - a claim writes back a     *)
(*                                weight from before the close (S9, mechanism b)                                  *)
(*   MC_WeightHist_late.cfg       as b, but an address only claims in an epoch in which it has not changed a     *)
(*                                position, and every flow is running: yes - this is the situation in which      *)
(*                                shares above 100 % are NOT excused by S9                                        *)
(*   MC_WeightHist_witness_scheduled.cfg   as late, with a flow that has not started in the list the claim       *)
(*                                walks (what a wrong availability filter would do): no                           *)
EXTENDS WeightHist, Integers, FiniteSets, TLC

CONSTANTS Users, MaxEpoch, Steps, MaxW, Flows, WalkUnstarted, Closes, Claims, CloseOnlyAfterSnapshot, ClaimOnlyWhenSettled, MaxOps

VARIABLES cur, aw, wh, snap, last, changed, ops
vars == <<cur, aw, wh, snap, last, changed, ops>>

SumOver(f) == LET RECURSIVE go(_)
                  go(X) == IF X = {} THEN 0 ELSE LET x == CHOOSE y \in X : TRUE IN f[x] + go(X \ {x})
              IN go(Users)
GW == SumOver(aw)
\* flow sets for the configurations: one running flow; a running, an ended and a later-starting one; a running and a scheduled one
FlowsRun == <<[start |-> 1, fend |-> 9]>>
FlowsAll == <<[start |-> 1, fend |-> 9], [start |-> 1, fend |-> 3], [start |-> 3, fend |-> 9]>>
FlowsSched == <<[start |-> 1, fend |-> 9], [start |-> 8, fend |-> 12]>>

Init == /\ cur = 1 /\ aw = [u \in Users |-> 0] /\ wh = [u \in Users |-> <<>>] /\ snap = [e \in 1 .. MaxEpoch |-> -1]
        /\ last = [u \in Users |-> -1] /\ changed = [u \in Users |-> FALSE] /\ ops = 0

Open(u, w) ==
  /\ ops < MaxOps /\ aw[u] + w <= MaxW
  /\ aw' = [aw EXCEPT ![u] = @ + w] /\ wh' = [wh EXCEPT ![u] = AfterChange(@, cur, aw[u] + w)]
  /\ changed' = [changed EXCEPT ![u] = TRUE] /\ ops' = ops + 1 /\ UNCHANGED <<cur, snap, last>>
Close(u, w) ==
  /\ Closes /\ ops < MaxOps /\ aw[u] >= w /\ (CloseOnlyAfterSnapshot => snap[cur] >= 0)
  /\ aw' = [aw EXCEPT ![u] = @ - w] /\ wh' = [wh EXCEPT ![u] = AfterChange(@, cur, aw[u] - w)]
  /\ changed' = [changed EXCEPT ![u] = TRUE] /\ ops' = ops + 1 /\ UNCHANGED <<cur, snap, last>>
Snapshot == /\ snap[cur] < 0 /\ snap' = [snap EXCEPT ![cur] = GW] /\ UNCHANGED <<cur, aw, wh, last, changed, ops>>
\* the flows the claim walks: those that have started (all of them when the availability filter lets unstarted ones through)
Walked == LET av == SelectSeq(Flows, LAMBDA f : WalkUnstarted \/ f.start <= cur) IN
          [i \in DOMAIN av |-> [start |-> av[i].start, fend |-> av[i].fend, skip |-> FALSE]]
Claim(u) ==
  /\ Claims /\ last[u] # cur /\ (ClaimOnlyWhenSettled => ~changed[u])
  /\ wh' = [wh EXCEPT ![u] = AfterClaim(@, Walked, cur, last[u])]
  /\ last' = [last EXCEPT ![u] = cur] /\ UNCHANGED <<cur, aw, snap, changed, ops>>
NewEpoch == /\ cur < MaxEpoch /\ cur' = cur + 1 /\ changed' = [u \in Users |-> FALSE] /\ UNCHANGED <<aw, wh, snap, last, ops>>

Next == \/ NewEpoch \/ Snapshot
        \/ \E u \in Users : Claim(u) \/ \E w \in Steps : Open(u, w) \/ Close(u, w)
Spec == Init /\ [][Next]_vars

\* the weights the share query uses for the running epoch stay within that epoch's snapshot
SharesWithinSnapshot == snap[cur] >= 0 => SumOver([u \in Users |-> ShareWeight(wh[u], cur)]) <= snap[cur]
\* the global weight is the sum of the address weights by construction; a history never runs ahead of the next epoch
HistoryShape == \A u \in Users : \A i \in DOMAIN wh[u] : wh[u][i].e <= cur + 1 /\ (i > 1 => wh[u][i - 1].e < wh[u][i].e)
=============================================================================
