SPECIFICATION Spec
CONSTANTS
  DEC = "1000000000000000000"
  U128MAX = "340282366920938463463374607431768211455"
  MINLIQ = "1000"
  Users = {"user1", "user2", "user3"}
  StrictNested = TRUE
POSTCONDITION Consumed
CHECK_DEADLOCK FALSE
