----------------------------- MODULE MC_Emission -----------------------------
(* Bounded model of one incentive flow being emitted and claimed (Emission.tla): stakers whose weights change   *)
(* from epoch to epoch, a flow opened at any epoch (possibly back-dated: start before the epoch it is opened   *)
(* in), expansions with and without a later end, and claims by every staker in every order.  The weights are   *)
(* honest: the snapshot of an epoch is the sum of the stakers' weights of that epoch (the deviation S9 is not    *)
(* part of this model).                                                                                          *)
(* Questions:  does the ledger stay a cumulative account of what was emitted (LedgerCumulative, WithinAmount) ?  *)
(*             is what all stakers together are paid for an epoch within what the ledger says the epoch emitted  *)
(*             (EpochWithinEmission) ?  is an honest claim ever refused (NeverRefused) ?                         *)
(* BackDate = {0}, LateStretch = FALSE: all hold.  The other configurations are witnesses of two observations    *)
(* about the contract that lie beyond the listed properties (DESIGN.md, "Beyond the listed properties").         *)
EXTENDS Emission, Integers, FiniteSets, TLC

CONSTANTS Users, MaxEpoch, Amts, Weights, BackDate, Lens, ExpandAmts, Extend, LateStretch, AnyStart, MaxStakes, MaxExpands

VARIABLES epoch, open, flow, claimed, last, curW, W, paidE, refused, stakes
vars == <<epoch, open, flow, claimed, last, curW, W, paidE, refused, stakes>>

NoFlow == [base |-> 0, start |-> 0, end |-> 0, hist |-> <<>>, em |-> <<>>]
SumW(w) == LET RECURSIVE go(_)
               go(X) == IF X = {} THEN 0 ELSE LET x == CHOOSE y \in X : TRUE IN w[x] + go(X \ {x})
           IN go(Users)

Init ==
  /\ epoch = 1 /\ open = FALSE /\ flow = NoFlow /\ claimed = 0 /\ last = [u \in Users |-> -1]
  /\ curW \in [Users -> Weights] /\ W = <<curW>> /\ paidE = [e \in 1 .. MaxEpoch |-> 0] /\ refused = "" /\ stakes = 0

\* a position change in epoch e counts from epoch e + 1
Stake(u, w) ==
  /\ stakes < MaxStakes /\ w # curW[u] /\ curW' = [curW EXCEPT ![u] = w] /\ stakes' = stakes + 1
  /\ UNCHANGED <<epoch, open, flow, claimed, last, W, paidE, refused>>
NewEpoch ==
  /\ epoch < MaxEpoch /\ epoch' = epoch + 1 /\ W' = Append(W, curW)
  /\ UNCHANGED <<open, flow, claimed, last, curW, paidE, refused, stakes>>
OpenFlow(k, len, a) ==
  /\ ~open /\ epoch - k >= 1 /\ epoch - k <= epoch + len
  \* AnyStart = FALSE: the flow only starts in an epoch that no staker has claimed yet
  /\ (AnyStart \/ \A u \in Users : last[u] < epoch - k)
  /\ open' = TRUE /\ flow' = [base |-> a, start |-> epoch - k, end |-> epoch + len, hist |-> <<>>, em |-> <<>>]
  /\ UNCHANGED <<epoch, claimed, last, curW, W, paidE, refused, stakes>>
Expand(x, ext) ==
  /\ open /\ epoch <= FinalEnd(flow) /\ Len(flow.hist) < MaxExpands
  /\ (LateStretch \/ ext = 0 \/ epoch < FinalEnd(flow))
  /\ flow' = [flow EXCEPT !.hist = ExpandedHist(flow, epoch, x, FinalEnd(flow) + ext)]
  /\ UNCHANGED <<epoch, open, claimed, last, curW, W, paidE, refused, stakes>>
Claim(u) ==
  /\ last[u] # epoch /\ refused = ""
  /\ IF ~open
     THEN last' = [last EXCEPT ![u] = epoch] /\ UNCHANGED <<flow, claimed, paidE, refused>>
     ELSE LET first == IF last[u] >= 0 THEN last[u] + 1 ELSE flow.start
              acc == ClaimWalk(flow, first, epoch, [e \in 1 .. epoch |-> ShareOf(W[e][u], SumW(W[e]))],
                               [ok |-> TRUE, why |-> "", em |-> flow.em, claimed |-> claimed, pays |-> <<>>])
          IN IF acc.ok
             THEN /\ flow' = [flow EXCEPT !.em = acc.em] /\ claimed' = acc.claimed /\ last' = [last EXCEPT ![u] = epoch]
                  /\ paidE' = [e \in 1 .. MaxEpoch |->
                                 paidE[e] + (LET c == SelectSeq(acc.pays, LAMBDA p : p.e = e) IN IF c = <<>> THEN 0 ELSE c[1].x)]
                  /\ UNCHANGED refused
             ELSE refused' = acc.why /\ UNCHANGED <<flow, claimed, last, paidE>>
  /\ UNCHANGED <<epoch, open, curW, W, stakes>>

Next ==
  \/ NewEpoch
  \/ \E u \in Users : Claim(u) \/ \E w \in Weights : Stake(u, w)
  \/ \E k \in BackDate, len \in Lens, a \in Amts : OpenFlow(k, len, a)
  \/ \E x \in ExpandAmts, ext \in Extend : Expand(x, ext)
Spec == Init /\ [][Next]_vars

\* ---- what is asked -----------------------------------------------------------------------------------------
ClaimedWithinFunded == claimed <= FinalAmount(flow)
\* the ledger is cumulative: later entries are not smaller, and none exceeds the amount the flow holds in that epoch
LedgerCumulative == \A i, j \in DOMAIN flow.em : i < j => flow.em[i].x <= flow.em[j].x
WithinAmount == \A i \in DOMAIN flow.em : flow.em[i].x <= AtEpoch(flow, flow.em[i].e).amt
\* what the ledger says epoch e emitted
LedgerEmission(e) == EmittedUpTo(flow, e) - EmittedUpTo(flow, e - 1)
EpochWithinEmission == \A e \in 1 .. MaxEpoch : HasLedger(flow, e) => paidE[e] <= LedgerEmission(e)
NeverRefused == refused = ""
=============================================================================
