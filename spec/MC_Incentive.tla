---------------------------- MODULE MC_Incentive ----------------------------
(* Bounded model of the incentive contract: positions (custody, weights),     *)
(* flows (funded / claimed / refunded), epochs and the permissionless         *)
(* snapshot at every placement.  Weight(d, a) = max(a, floor(a * Mult[d]/10)).*)
(* ExpandDelta = TRUE: an expansion adds Weight(old+a) - Weight(old) (the     *)
(* repaired code); FALSE: Weight(a) (the defect S8, kept as a witness config).*)
EXTENDS Integers, Sequences, FiniteSets, TLC, Json

CONSTANTS Users, Durs, Amts, ExpandDelta, MaxLp, MaxEpoch, SchedDepth, EmitSched, FlowAmts

VARIABLES open, closed, lpbal, wlp, gw, aw, flows, rbal, epoch, snap, hist
vars == <<open, closed, lpbal, wlp, gw, aw, flows, rbal, epoch, snap, hist>>

Mult == [d \in {1, 2} |-> IF d = 1 THEN 10 ELSE 17]
W(d, a) == IF (a * Mult[d]) \div 10 > a THEN (a * Mult[d]) \div 10 ELSE a
Monus(a, b) == IF b <= a THEN a - b ELSE 0
SumF(f, D) == LET RECURSIVE go(_)
                  go(X) == IF X = {} THEN 0 ELSE LET x == CHOOSE y \in X : TRUE IN f[x] + go(X \ {x})
              IN go(D)
Op(o) == hist' = IF EmitSched THEN Append(hist, o) ELSE hist

Init ==
  /\ open = [u \in Users |-> [d \in Durs |-> 0]] /\ closed = [u \in Users |-> 0] /\ lpbal = 0
  /\ wlp = [u \in Users |-> MaxLp] /\ gw = 0 /\ aw = [u \in Users |-> 0]
  /\ flows = <<>> /\ rbal = 0 /\ epoch = 1 /\ snap = FALSE /\ hist = <<>>

Open(u, r, d, a) ==
  /\ open[r][d] = 0 /\ wlp[u] >= a
  /\ open' = [open EXCEPT ![r][d] = a] /\ lpbal' = lpbal + a /\ wlp' = [wlp EXCEPT ![u] = @ - a]
  /\ gw' = gw + W(d, a) /\ aw' = [aw EXCEPT ![r] = @ + W(d, a)]
  /\ UNCHANGED <<closed, flows, rbal, epoch, snap>> /\ Op([op |-> "open", u |-> u, d |-> d, a |-> a])
Expand(u, r, d, a) ==
  LET dw == IF ExpandDelta THEN W(d, open[r][d] + a) - W(d, open[r][d]) ELSE W(d, a) IN
  /\ open[r][d] > 0 /\ wlp[u] >= a
  /\ open' = [open EXCEPT ![r][d] = @ + a] /\ lpbal' = lpbal + a /\ wlp' = [wlp EXCEPT ![u] = @ - a]
  /\ gw' = gw + dw /\ aw' = [aw EXCEPT ![r] = @ + dw]
  /\ UNCHANGED <<closed, flows, rbal, epoch, snap>> /\ Op([op |-> "expand", u |-> u, d |-> d, a |-> a])
Close(u, d) ==
  /\ open[u][d] > 0
  /\ closed' = [closed EXCEPT ![u] = @ + open[u][d]] /\ open' = [open EXCEPT ![u][d] = 0]
  /\ gw' = Monus(gw, W(d, open[u][d])) /\ aw' = [aw EXCEPT ![u] = Monus(@, W(d, open[u][d]))]
  /\ UNCHANGED <<lpbal, wlp, flows, rbal, epoch, snap>> /\ Op([op |-> "close", u |-> u, d |-> d, a |-> 0])
Withdraw(u) ==
  /\ closed[u] > 0
  /\ wlp' = [wlp EXCEPT ![u] = @ + closed[u]] /\ lpbal' = lpbal - closed[u] /\ closed' = [closed EXCEPT ![u] = 0]
  /\ UNCHANGED <<open, gw, aw, flows, rbal, epoch, snap>> /\ Op([op |-> "withdraw", u |-> u, d |-> 0, a |-> 0])
Snapshot(u) == /\ ~snap /\ snap' = TRUE /\ UNCHANGED <<open, closed, lpbal, wlp, gw, aw, flows, rbal, epoch>>
               /\ Op([op |-> "snapshot", u |-> u, d |-> 0, a |-> 0])
NewEpoch(u) == /\ epoch < MaxEpoch /\ epoch' = epoch + 1 /\ snap' = FALSE
               /\ UNCHANGED <<open, closed, lpbal, wlp, gw, aw, flows, rbal>> /\ Op([op |-> "newepoch", u |-> u, d |-> 0, a |-> 0])
ClaimOp(u) == /\ snap /\ EmitSched /\ UNCHANGED <<open, closed, lpbal, wlp, gw, aw, flows, rbal, epoch, snap>>
              /\ Op([op |-> "claim", u |-> u, d |-> 0, a |-> 0])
\* flows: fund, expand, pay a claim (any amount not above what is left), close with refund
OpenFlow(x) == /\ Len(flows) < 2 /\ ~EmitSched /\ flows' = Append(flows, [funded |-> x, claimed |-> 0]) /\ rbal' = rbal + x
               /\ UNCHANGED <<open, closed, lpbal, wlp, gw, aw, epoch, snap, hist>>
ExpandFlow(i, x) == /\ ~EmitSched /\ flows' = [flows EXCEPT ![i].funded = @ + x] /\ rbal' = rbal + x
                    /\ UNCHANGED <<open, closed, lpbal, wlp, gw, aw, epoch, snap, hist>>
PayClaim(i, x) == /\ ~EmitSched /\ x <= flows[i].funded - flows[i].claimed /\ flows' = [flows EXCEPT ![i].claimed = @ + x]
                  /\ rbal' = rbal - x /\ UNCHANGED <<open, closed, lpbal, wlp, gw, aw, epoch, snap, hist>>
CloseFlow(i) == /\ ~EmitSched /\ rbal' = rbal - (flows[i].funded - flows[i].claimed)
                /\ flows' = [j \in 1 .. Len(flows) - 1 |-> IF j < i THEN flows[j] ELSE flows[j + 1]]
                /\ UNCHANGED <<open, closed, lpbal, wlp, gw, aw, epoch, snap, hist>>

Next ==
  \/ \E u \in Users, d \in Durs, a \in Amts : Open(u, u, d, a) \/ Expand(u, u, d, a)
  \/ \E u \in Users, r \in Users, d \in Durs : u # r /\ ~EmitSched /\ (Open(u, r, d, 1) \/ Expand(u, r, d, 1))
  \/ \E u \in Users, d \in Durs : Close(u, d)
  \/ \E u \in Users : Withdraw(u) \/ Snapshot(u) \/ NewEpoch(u) \/ ClaimOp(u)
  \/ \E x \in FlowAmts : OpenFlow(x)
  \/ \E i \in 1 .. Len(flows) : CloseFlow(i) \/ \E x \in FlowAmts : ExpandFlow(i, x) \/ PayClaim(i, x)
Spec == Init /\ [][Next]_vars
View == <<open, closed, lpbal, wlp, gw, aw, flows, rbal, epoch, snap>>
Depth == Len(hist) <= SchedDepth
Bounded == rbal <= 4 /\ \A i \in 1 .. Len(flows) : flows[i].funded <= 4

Custody == lpbal = SumF([u \in Users |-> SumF(open[u], Durs) + closed[u]], Users)
WeightsAddUp == gw = SumF(aw, Users)
WeightMatchesPositions == \A u \in Users : aw[u] = SumF([d \in Durs |-> IF open[u][d] = 0 THEN 0 ELSE W(d, open[u][d])], Durs)
FlowsCovered == LET owed == SumF([i \in 1 .. Len(flows) |-> flows[i].funded - flows[i].claimed], 1 .. Len(flows)) IN rbal = owed
WeightFn == \A d \in Durs, a \in 1 .. 12 : W(d, a) >= a /\ W(d, a + 1) >= W(d, a)
Emit == (EmitSched /\ Len(hist) = SchedDepth) => PrintT(ToJson([k |-> "SCHED", ops |-> hist]))
=============================================================================
