SPECIFICATION Spec
CONSTANTS
  Users = {"u1", "u2"}
  Durs = {1, 2}
  Amts = {1, 2, 3}
  ExpandDelta = FALSE
  MaxLp = 6
  MaxEpoch = 3
  SchedDepth = 0
  EmitSched = FALSE
  FlowAmts = {1, 3}
VIEW View
CONSTRAINT Bounded
INVARIANTS Custody WeightsAddUp WeightMatchesPositions FlowsCovered WeightFn
CHECK_DEADLOCK FALSE
