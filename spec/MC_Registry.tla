----------------------------- MODULE MC_Registry -----------------------------
(* Create / remove / re-create sequences over a universe of four assets in      *)
(* every permutation, for each kind of child (pair: 2 assets, trio: 3, vault: 1, *)
(* incentive: 1 without removal).  Every behaviour is emitted as a schedule.    *)
EXTENDS Registry, Json

CONSTANTS Universe, Arity, SchedDepth, Kind, CanRemove

VARIABLES live, hist

AllOk(checks) == \A i \in DOMAIN checks : checks[i][2]
Perms == { p \in [1 .. Arity -> Universe] : \A i, j \in 1 .. Arity : i # j => p[i] # p[j] }
Init == live = {} /\ hist = <<>>
Create(p) ==
  /\ hist' = Append(hist, [op |-> "create", perm |-> p, ok |-> AllOk(CreateChecks(live, p))])
  /\ live' = IF AllOk(CreateChecks(live, p)) THEN CreateNext(live, p) ELSE live
Remove(p) ==
  /\ CanRemove
  /\ hist' = Append(hist, [op |-> "remove", perm |-> p, ok |-> AllOk(RemoveChecks(live, p))])
  /\ live' = IF AllOk(RemoveChecks(live, p)) THEN RemoveNext(live, p) ELSE live
Next == Len(hist) < SchedDepth /\ \E p \in Perms : Create(p) \/ Remove(p)
Spec == Init /\ [][Next]_<<live, hist>>

\* one child per unordered set: the registry is a set of sets of the right size
OnePerSet == \A S \in live : Cardinality(S) = Arity /\ S \subseteq Universe
\* a removed entry can be created again, a live one cannot, in any permutation
ReCreate == \A p \in Perms : AllOk(CreateChecks(live, p)) <=> SeqToSet(p) \notin live
Emit == Len(hist) = SchedDepth => PrintT(ToJson([k |-> "SCHED", kind |-> Kind, ops |-> hist]))
=============================================================================
