SPECIFICATION Spec
CONSTANTS
  DEC = 100
  U128MAX = 100000
  NTop = 18
  Amps = {1, 5, 20}
INVARIANTS Curve2OK Curve3OK RampOK
CHECK_DEADLOCK FALSE
