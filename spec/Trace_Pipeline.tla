--------------------------- MODULE Trace_Pipeline ---------------------------
(* Trace validation of NewEpoch transactions on the fully wired hub (C10).    *)
EXTENDS Pipeline, Json, IOUtils

Rec == ndJsonDeserialize(IOEnv.TRACE)
VARIABLES l, prev
vars == <<l, prev>>

\* the new epoch's total minus what was rolled over from the expiring epoch = what the distributor received
EpochLedger(ev) ==
  << <<"C10.transfer=new-epoch-total-minus-rolled",
        ev.obs.epoch.total = (ev.obs.dist -- prev.dist) ++ ev.pre.expiring_available>>,
     <<"C10.new-epoch-id", ev.obs.epoch.id = prev.epoch.id + 1>> >>

\* "swapped through REGISTERED routes or left untouched": the harness registers routes for uusdc and tokena only, and
\* only in the configurations whose route is not "noroute"; every other non-distribution asset must stay where it is
Routed(route) == IF route = "noroute" THEN {} ELSE {"uusdc", "tokena"}
UnroutedUntouched(ev) ==
  << <<"C10.assets-without-a-registered-route-left-untouched",
        \A a \in (Assets \ {Dist}) \ Routed(ev.args.route) :
          ev.obs.col[a] = prev.col[a] ++ CollectedInto(prev, a, PoolKids \cup VaultKids)>> >>

\* Beyond the listed properties: the collector's own Fees query (by factory) ought to say what the factory's children hold -
\* pending and all-time, asset by asset: the sum of the children's own ledgers.  (Three-asset pools are children of the pool
\* factory too; the query lists pairs only - the query-side face of known finding S15 - so the trio is judged apart.)
FeesQueryX(o) ==
  IF ~o.qfees.ok
  THEN << <<"X.collector.fees-query-answers(all-children-healthy)", o.qfees.faulty>> >>
  ELSE << <<"X.collector.fees-query(pools)=sum-of-the-pairs'-ledgers",
             \A a \in Assets : o.qfees.pool[a] = SetSum([k \in PoolKids |-> o.pending[k][a]], PoolKids)
                               /\ o.qfees.pool_all[a] = SetSum([k \in PoolKids |-> o.alltime[k][a]], PoolKids)>>,
          <<"X.collector.fees-query(vaults)=sum-of-the-vaults'-ledgers",
             \A a \in Assets : o.qfees.vault[a] = SetSum([k \in VaultKids |-> o.pending[k][a]], VaultKids)
                               /\ o.qfees.vault_all[a] = SetSum([k \in VaultKids |-> o.alltime[k][a]], VaultKids)>>,
          <<"X.collector.fees-query(pools)-includes-three-asset-pools",
             \A a \in Assets : o.pending["trio"][a] = Zero \/
                               o.qfees.pool[a] = SetSum([k \in PoolKids |-> o.pending[k][a]], PoolKids) ++ o.pending["trio"][a]>> >>
EvChecks0(ev) ==
  CASE ev.ev = "newepoch" ->
         IF ev.res = "ok"
         THEN EpochChecks(prev, ev.obs, PoolKids \cup VaultKids) \o EpochLedger(ev) \o UnroutedUntouched(ev)
              \* a registered vault's CollectProtocolFees fails (ev.args.broken): the failed step must fail the transaction
              \o << <<"C10.a-failing-collection-step-fails-the-whole-epoch", ~ev.args.broken>> >>
              \* three-asset pools are registered pools too (judged separately: known finding S15)
              \o << <<"C10.trio-pending-fees-collected",
                       \A a \in Assets :
                         (ev.obs.pending["trio"][a] -- (ev.obs.alltime["trio"][a] -- prev.alltime["trio"][a]))
                           = (prev.pending["trio"][a] -- Collectable(prev, "trio", a))>> >>
         ELSE << <<"C10.failed-step-leaves-everything-unchanged", ev.dpre = ev.dpost>>,
                 \* the title of C10: owed fees reach the epoch - a due epoch over a healthy pipeline must be created
                 <<"C10.healthy-pipeline-creates-the-epoch", ev.args.route = "fails" \/ ev.args.broken>> >>
    [] ev.ev = "forward" ->
         << <<"C10.only-the-distributor-forwards", ev.res # "ok">>,
            <<"C10.rejected-forward-changes-nothing", ev.dpre = ev.dpost>> >>
    [] ev.ev = "setup" -> <<>>
    \* the owner flips the take-rate switch with a message that carries nothing else: it must be accepted and stored
    [] ev.ev = "setflag" ->
         << <<"C10.take-switch.accepted-and-stored-as-set", ev.res = "ok" /\ ev.obs.take.active = ev.args.active>> >>
    [] OTHER -> << <<"TRACE.unknown-event", FALSE>> >>

EvChecks(ev) == EvChecks0(ev) \o (IF ev.ev = "reset" THEN <<>> ELSE FeesQueryX(ev.obs))

Report(ev, bad) ==
  IF bad = {} THEN TRUE
  ELSE PrintT(ToJson([k |-> "BAD", run |-> ev.run, step |-> IF ev.ev = "reset" THEN -1 ELSE ev.step,
                      line |-> l, ev |-> ev.ev, bad |-> bad]))
Init == l = 1 /\ prev = [dist |-> "0"]
Next ==
  /\ l <= Len(Rec)
  /\ LET ev == Rec[l] IN
       /\ (IF ev.ev = "reset" THEN TRUE ELSE Report(ev, Failed(EvChecks(ev))))
       \* the take-rate configuration is the specification's own: what the owner's messages set, not what the collector reports
       /\ prev' = [ev.obs EXCEPT !.take =
                     IF ev.ev = "reset" THEN [active |-> ev.cfg.active, rate |-> ev.cfg.rate, dao_set |-> TRUE]
                     ELSE IF ev.ev = "setflag" /\ ev.res = "ok" THEN [prev.take EXCEPT !.active = ev.args.active]
                     ELSE prev.take]
  /\ l' = l + 1
Spec == Init /\ [][Next]_vars
Consumed ==
  /\ PrintT(ToJson([k |-> "CONSUMED", consumed |-> TLCGet("stats").diameter - 1, lines |-> Len(Rec)]))
  /\ TLCGet("stats").diameter - 1 = Len(Rec)
=============================================================================
