-------------------------------- MODULE Slip --------------------------------
(* Slippage limits of a swap (C15), shared by the pair and the three-asset  *)
(* pool: both call white_whale_std::pool_network::swap::assert_max_spread.  *)
EXTENDS Dec

\* C15: max spread s (decimal atomics; default 1 %, cap 50 %), optional belief price bp
EffSpread(ms) == NMin(IF ms = "none" THEN DEC // N(100) ELSE ms, DEC // Two)
BeliefExpected(offer, bp) == MulFloor(offer, DecInv(bp))   \* offer/p, one atomic of 1/p and one unit floored
SpreadBound(offer, gross, spread, ms, bp) ==               \* what an accepted swap satisfied
  LET s == EffSpread(ms) IN
  IF bp = "none"
  THEN (spread ** DEC) \prec ((s ++ One) ** (gross ++ spread))
  ELSE bp = Zero \/ ((gross ++ One) ** DEC) \succeq (BeliefExpected(offer, bp) ** ((DEC -- s) -- One))
SpreadInside(offer, gross, spread, ms, bp) ==              \* strictly inside: must not be rejected
  LET s == EffSpread(ms) IN
  IF bp = "none"
  THEN /\ Zero \prec (gross ++ spread) /\ (gross ++ spread) \preceq U128MAX
       /\ (spread ** DEC) \preceq (s ** (gross ++ spread))
  ELSE /\ Zero \prec bp
       /\ BeliefExpected(offer, bp) \preceq U128MAX
       /\ \/ BeliefExpected(offer, bp) \preceq gross
          \/ ((BeliefExpected(offer, bp) -- gross) ** DEC) \preceq (s ** BeliefExpected(offer, bp))
=============================================================================
