SPECIFICATION Spec
CONSTANTS
  Universe = {"A","B","C","D"}
  Arity = 3
  SchedDepth = 2
  Kind = "trio"
  CanRemove = TRUE
INVARIANTS OnePerSet ReCreate Emit
CHECK_DEADLOCK FALSE
