-------------------------------- MODULE Config --------------------------------
(* Stored configuration stays within its documented bounds (C18).  The state is  *)
(* the set of bounded parameters of the hub; every write path is an action.      *)
EXTENDS Dec, Sequences, FiniteSets, TLC

CONSTANTS MAXAMP,     \* 10^6
          MAXGRACE,   \* 30
          MINDUR      \* one day in ns

FeeOK(f, third) == /\ Zero \preceq f.p /\ Zero \preceq f[third] /\ Zero \preceq f.b
                   /\ f.p \prec DEC /\ f[third] \prec DEC /\ f.b \prec DEC
                   /\ ((f.p ++ f[third]) ++ f.b) \prec DEC
PoolFeeOK(f) == FeeOK(f, "s")
VaultFeeOK(f) == FeeOK(f, "f")
AmpOK(a) == One \preceq a /\ a \preceq MAXAMP
GraceOK(g) == One \preceq g /\ g \preceq MAXGRACE
DurOK(d) == MINDUR \preceq d
GrowthOK(r) == Zero \preceq r /\ r \preceq DEC
TakeOK(t) == Zero \preceq t /\ t \prec DEC

(* observation record o:
   pair1, pair2 : pool fee ; trio : pool fee ; amp : [init, future] ; vault : vault fee ;
   grace, dur, growth, assets (count), take ; created : "none" or a record describing a freshly
   instantiated contract [kind, fee | amp | grace | dur | growth | assets]                     *)
CreatedOK(c) ==
  CASE c.kind = "none" -> TRUE
    [] c.kind = "pair" -> PoolFeeOK(c.fee)
    [] c.kind = "trio" -> PoolFeeOK(c.fee) /\ AmpOK(c.amp)
    [] c.kind = "vault" -> VaultFeeOK(c.fee)
    [] c.kind = "distributor" -> GraceOK(c.grace) /\ DurOK(c.dur)
    [] c.kind = "lair" -> GrowthOK(c.growth) /\ c.assets \preceq Two
    [] OTHER -> FALSE

ConfigChecks(o) ==
  << <<"C18.pair-fees-in-range", PoolFeeOK(o.pair1) /\ PoolFeeOK(o.pair2)>>,
     <<"C18.trio-fees-in-range", PoolFeeOK(o.trio)>>,
     <<"C18.vault-fees-in-range", VaultFeeOK(o.vault)>>,
     <<"C18.amp-in-range", AmpOK(o.amp.init) /\ AmpOK(o.amp.future)>>,
     <<"C18.grace-in-range", GraceOK(o.grace)>>,
     <<"C18.epoch-duration>=1day", DurOK(o.dur)>>,
     <<"C18.growth-rate<=1", GrowthOK(o.growth)>>,
     <<"C18.at-most-two-bonding-assets", o.assets \preceq Two>>,
     <<"C18.take-rate<1", TakeOK(o.take)>>,
     <<"C18.created-contract-in-range", CreatedOK(o.created)>> >>

StepChecks(prev, o) == << <<"C18.grace-never-decreases", prev.grace \preceq o.grace>> >>
=============================================================================
