------------------------------ MODULE MC_Vault ------------------------------
(* Bounded instance of Vault: every interleaving of deposit / withdraw /      *)
(* collect / set-fees / donate by the users with flash-loan transactions whose *)
(* borrower scripts are enumerated from a finite alphabet (depth <= 2 atoms,   *)
(* optionally one nested loan).  Rule layer for deposit / withdraw outcomes;   *)
(* transactions use the code's formulas.  Checks C05, C06, C07 (vault).        *)
EXTENDS Vault

CONSTANTS Amt, LoanAmt, Wallet0, MaxBal, MaxS, Nested

VARIABLE st

FeeTriples ==
  { [p |-> 0, f |-> 0, b |-> 0],
    [p |-> DEC \div 10, f |-> DEC \div 5, b |-> DEC \div 10],
    [p |-> DEC \div 4, f |-> 0, b |-> DEC \div 2] }

Init ==
  \E f \in FeeTriples, k \in {"native", "cw20"} :
    st = [ bal |-> 0, fee |-> 0, feeAll |-> 0, burned |-> 0, col |-> 0, S |-> 0, loans |-> 0,
           circ |-> Wallet0 * (Cardinality(Users) + 1), dueAll |-> 0, rb |-> 0, aw |-> Wallet0,
           lp |-> [h \in Holders |-> 0], w |-> [u \in Users |-> Wallet0],
           fees |-> f, tog |-> [d |-> TRUE, w |-> TRUE, l |-> TRUE], kind |-> k ]

\* ---- adversary scripts -----------------------------------------------------
RepayAmounts(amt) ==   \* around the quoted payback, and the classic under-payments
  { x \in { Payback(st, amt), Payback(st, amt) - 1, Payback(st, amt) + 1, amt,
            amt + ProtocolFee(st, amt), amt + FlashFee(st, amt) } : x >= 1 }
SimpleAtoms(amt) ==
  { [a |-> "repay", x |-> x] : x \in RepayAmounts(amt) }
  \cup { [a |-> "fail"], [a |-> "nothing"], [a |-> "collect"],
         [a |-> "deposit", x |-> 3], [a |-> "withdraw", x |-> 1] }
\* one atom, or a side effect (collect / withdraw / deposit / nothing) followed by a repayment
SideAtoms == { [a |-> "nothing"], [a |-> "collect"], [a |-> "deposit", x |-> 3], [a |-> "withdraw", x |-> 1], [a |-> "fcb", x |-> 1] }
Scripts1(amt) == { <<a>> : a \in SimpleAtoms(amt) }
                 \cup { <<a, [a |-> "repay", x |-> x]>> : a \in SideAtoms, x \in RepayAmounts(amt) }
NestedScripts(amt) ==
  IF ~Nested THEN {}
  ELSE UNION { { <<[a |-> "loan", x |-> n, sub |-> <<[a |-> "repay", x |-> rn]>>], [a |-> "repay", x |-> ro]>> :
                   rn \in {Payback(st, n), Payback(st, n) - 1},
                   ro \in { x \in {Payback(st, amt), Payback(st, amt) - 1, amt} : x >= 1 } } : n \in LoanAmt }
       \* sibling loans: two loans one after the other in the same call-back, each repaid exactly; the outer repayment
       \* exact or one unit short
       \cup { <<[a |-> "loan", x |-> n, sub |-> <<[a |-> "repay", x |-> Payback(st, n)]>>],
                 [a |-> "loan", x |-> m, sub |-> <<[a |-> "repay", x |-> Payback(st, m)]>>], [a |-> "repay", x |-> ro]>> :
                 n \in LoanAmt, m \in LoanAmt, ro \in { x \in {Payback(st, amt), Payback(st, amt) - 1} : x >= 1 } }
       \* a deposit made after the inner loan has completed is still inside the outer loan
       \cup { <<[a |-> "loan", x |-> n, sub |-> <<[a |-> "repay", x |-> Payback(st, n)]>>], [a |-> "deposit", x |-> d]>> :
                 n \in LoanAmt, d \in {3, Payback(st, amt)} }

LoanTx(amt, sub) ==
  LET script == <<[a |-> "loan", x |-> amt, sub |-> sub]>>
      r == RunScript(st, script, "vault")
  IN /\ r.ok /\ st' = r.s

RouterTx(u, amt, sub) ==
  LET r == RunRouterLoan(st, u, amt, sub) IN r.ok /\ st' = r.s

MaxMint(amt) == IF st.S = 0 THEN amt - MINLIQ ELSE (amt * st.S) \div VR(st)
MaxPaid(sh) == (sh * VR(st)) \div st.S

Next ==
  \/ \E u \in Users, amt \in Amt :
       /\ st.loans = 0 /\ (st.S = 0 \/ VR(st) > 0)
       /\ \E minted \in { m \in {MaxMint(amt) - 1, MaxMint(amt)} : m >= 1 } :
            /\ AllOk(DepositChecks(st, amt, minted))
            /\ st' = DepositNext(st, u, amt, minted)
  \/ \E u \in Users : st.S > 0 /\ \E sh \in 1 .. st.lp[u] :
       \E paid \in { p \in {MaxPaid(sh) - 1, MaxPaid(sh)} : p >= 0 } :
            /\ AllOk(WithdrawChecks(st, u, sh, paid))
            /\ st' = WithdrawNext(st, u, sh, paid)
  \/ st' = CollectNext(st, st.fee)
  \/ \E f \in FeeTriples : st' = SetFeesNext(st, f)
  \/ \E u \in Users : st' = DonateNext(st, u, 1)
  \/ \E amt \in LoanAmt : \E sub \in Scripts1(amt) \cup NestedScripts(amt) : LoanTx(amt, sub)
  \/ \E u \in Users, amt \in LoanAmt : \E sub \in Scripts1(amt) : RouterTx(u, amt, sub)

Spec == Init /\ [][Next]_st
Bounded == st.bal <= MaxBal /\ st.S <= MaxS
View == <<st.bal, st.fee, st.S, st.lp, st.fees, st.kind>>

StateOK == AllOk(StateChecks(st))
StepOK == [][AllOk(StepChecks(st, st'))]_st

\* C06 on every enumerated transaction from every reachable state (completed or reverted)
LoanTxOK ==
  \A amt \in LoanAmt : \A sub \in Scripts1(amt) \cup NestedScripts(amt) :
    LET script == <<[a |-> "loan", x |-> amt, sub |-> sub]>>
        r == RunScript(st, script, "vault")
    IN r.ok => AllOk(LoanTxChecks(st, r.s, script)) /\ AllOk(StepChecks(st, r.s)) /\ AllOk(StateChecks(r.s))
RouterTxOK ==
  \A u \in Users, amt \in LoanAmt : \A sub \in Scripts1(amt) :
    LET r == RunRouterLoan(st, u, amt, sub) IN
      r.ok => /\ AllOk(LoanTxChecks(st, r.s, <<[a |-> "loan", x |-> amt, sub |-> sub]>>))
              /\ r.s.rb = 0                                       \* the router keeps nothing
              /\ r.s.bal >= st.bal + ProtocolFee(st, amt) + FlashFee(st, amt)
\* the quoted payback always suffices, one unit less never does
ExactSuffices ==
  \A amt \in LoanAmt :
    (st.tog.l /\ amt <= st.bal /\ Payback(st, amt) <= st.aw + amt) =>
      /\ RunLoan(st, amt, <<[a |-> "repay", x |-> Payback(st, amt)]>>).ok
      /\ (Payback(st, amt) > 1 => ~RunLoan(st, amt, <<[a |-> "repay", x |-> Payback(st, amt) - 1]>>).ok)
ImplOK ==
  /\ \A amt \in Amt : (st.S = 0 \/ VR(st) > 0) =>
       LET m == ImplMint(st, amt) IN m >= 1 => AllOk(DepositChecks(st, amt, m))
  /\ st.S > 0 => \A sh \in 1 .. st.S : (ImplPaid(st, sh) * st.S) <= (sh * VR(st))
DepositThenWithdraw ==
  \A amt \in Amt, u \in Users :
    LET m == ImplMint(st, amt) IN
      (m >= 1 /\ ((st.S = 0 /\ st.bal = 0) \/ (st.S > 0 /\ VR(st) > 0))) =>
        ImplPaid(DepositNext(st, u, amt, m), m) <= amt
=============================================================================
