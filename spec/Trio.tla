-------------------------------- MODULE Trio --------------------------------
(* Three-asset stableswap pool at contract level (C04; the simulation clause *)
(* of C14).  State (what the pool's queries and the bank report):            *)
(*   init, future, start, stop  the amplification ramp (Config)              *)
(*   height                     block height                                  *)
(*   res[1..3]                  reported reserves (balance minus owed fees)   *)
(*   S                          LP supply                                     *)
(*   fee[1..3]                  protocol fees owed to the collector           *)
(*   bal[1..3]                  what the pool really holds                    *)
(* One action per entry point of commands.rs (update_config's ramp arm, swap, *)
(* provide_liquidity, withdraw_liquidity, collect_protocol_fees) plus the     *)
(* passage of blocks.  The curve itself is Stable.tla: D and y are the exact  *)
(* roots found by bisection, never the contract's Newton iterations.          *)
EXTENDS Stable, Slip

CONSTANTS MIN_AMP, MAX_AMP, MAX_AMP_CHANGE, MIN_RAMP_BLOCKS   \* Num

Idx == 1 .. 3
AmpNow(s) == AmpAt(s.init, s.future, s.height, s.start, s.stop)
DOf(r, amp) == Dstar3(r[1], r[2], r[3], amp)
Max3(r) == NMax(r[1], NMax(r[2], r[3]))
Min3(r) == NMin(r[1], NMin(r[2], r[3]))
\* how lopsided the pool is (before or after the step): square root of largest over smallest reserve
Lop(r, t) == Lopsided(NMax(Max3(r), Max3(t)), NMin(Min3(r), Min3(t)))

SamePool(s, t) == t.res = s.res /\ t.S = s.S /\ t.fee = s.fee /\ t.bal = s.bal
SameRamp(s, t) == t.init = s.init /\ t.future = s.future /\ t.start = s.start /\ t.stop = s.stop

\* ---- every state ---------------------------------------------------------------------------------------------
StateChecks(t) ==
  << <<"C04.solvent.balance>=reserves+owed-fees", \A n \in Idx : (t.res[n] ++ t.fee[n]) \preceq t.bal[n]>>,
     <<"C04.amp.within-[min,max]", MIN_AMP \preceq AmpNow(t) /\ AmpNow(t) \preceq MAX_AMP>>,
     <<"C18.amp.stored-ramp-within-[1,10^6]",
        MIN_AMP \preceq t.init /\ t.init \preceq MAX_AMP /\ MIN_AMP \preceq t.future /\ t.future \preceq MAX_AMP>>,
     <<"C04.amp.between-start-and-target",
        IF t.init \preceq t.future THEN t.init \preceq AmpNow(t) /\ AmpNow(t) \preceq t.future
        ELSE t.future \preceq AmpNow(t) /\ AmpNow(t) \preceq t.init>> >>

\* ---- amplification ramp --------------------------------------------------------------------------------------
RampOk(s, fa, fb) == RampAllowed(AmpNow(s), fa, fb, s.height, MIN_RAMP_BLOCKS, MIN_AMP, MAX_AMP, MAX_AMP_CHANGE)
RampNext(s, fa, fb) == [s EXCEPT !.init = AmpNow(s), !.future = fa, !.start = s.height, !.stop = fb]
RampChecks(s, byOwner, fa, fb, ok, t) ==
  << <<"C04.ramp.accepted-only-within-the-bounds", ok => RampOk(s, fa, fb)>>,
     \* the new ramp starts at the amplification in force now, so the effective value never jumps
     <<"C04.ramp.starts-from-the-effective-amp-now", ok => t = RampNext(s, fa, fb)>>,
     <<"C04.ramp.rejected-leaves-the-ramp-unchanged", ~ok => SameRamp(s, t)>>,
     <<"C18.amp.rejected-ramp-changes-nothing", ~ok => (SameRamp(s, t) /\ SamePool(s, t))>>,
     <<"C04.ramp.pool-untouched", SamePool(s, t)>>,
     <<"drift.ramp.only-the-owner", ok => byOwner>>,
     <<"drift.ramp.allowed-ramp-is-accepted", (byOwner /\ RampOk(s, fa, fb)) => ok>> >>

\* ---- swap of asset i for asset j (k is the third) ---------------------------------------------------------------
Gross(o) == ((o.ret ++ o.sf) ++ o.pf) ++ o.bf
SwapNext(s, i, j, offer, o) ==
  [s EXCEPT !.res = [n \in Idx |-> IF n = i THEN s.res[n] ++ offer
                                   ELSE IF n = j THEN (s.res[n] -- Gross(o)) ++ o.sf ELSE s.res[n]],
            !.fee = [n \in Idx |-> IF n = j THEN s.fee[n] ++ o.pf ELSE s.fee[n]],
            !.bal = [n \in Idx |-> IF n = i THEN s.bal[n] ++ offer
                                   ELSE IF n = j THEN (s.bal[n] -- o.ret) -- o.bf ELSE s.bal[n]]]
\* curveOut: what curve.rs::swap_to returns for these reserves at the amplification in force (the pure function is
\* judged against the independent curve by Trace_Math)
SwapChecks(s, f, i, j, k, offer, curveOut, o, t) ==
  LET amp == AmpNow(s)
      D0 == DOf(s.res, amp)
      D1 == DOf(t.res, amp)
      up == [t.res EXCEPT ![j] = t.res[j] ++ One]
      dustD == (N(8) ++ Lop(s.res, t.res)) ** ((DOf(up, amp) -- D1) ++ Two)
  IN << <<"C04.swap.proceeds+fees=curve-output", IsNum(curveOut) /\ Gross(o) = curveOut>>,
        <<"C04.swap.fees=floor(share*gross)",
           o.sf = MulFloor(Gross(o), f.s) /\ o.pf = MulFloor(Gross(o), f.p) /\ o.bf = MulFloor(Gross(o), f.b)>>,
        <<"C04.swap.reserves-fee-ledger-and-balances-move-by-the-swap",
           Gross(o) \preceq s.res[j] /\ t.res = SwapNext(s, i, j, offer, o).res /\ t.fee = SwapNext(s, i, j, offer, o).fee
           /\ t.bal = SwapNext(s, i, j, offer, o).bal /\ t.S = s.S>>,
        <<"C04.swap.invariant-per-LP-never-decreases", D0 \preceq D1>>,
        <<"C04.swap.invariant-decrease-within-rounding-dust", D0 \preceq D1 \/ D0 \preceq (D1 ++ dustD)>>,
        <<"C04.ramp-untouched", SameRamp(s, t)>> >>
\* slippage limits of an executed / refused swap (C15): ms = max spread or "none", bp = belief price or "none"
SpreadChecks(offer, o, ms, bp) ==
  << <<"C15.trio.swap.bound", SpreadBound(offer, Gross(o), o.spread, ms, bp)>> >>
SpreadInsideChecks(offer, sim, ms, bp) ==
  << <<"C15.trio.swap.inside-rejected",
        ~(sim.res = "ok" /\ Zero \prec offer /\ SpreadInside(offer, Gross(sim), sim.spread, ms, bp))>> >>
SimChecks(sim, o) ==
  << <<"C14.trio.simulation=execution",
        sim.res = "ok" /\ sim.ret = o.ret /\ sim.sf = o.sf /\ sim.pf = o.pf /\ sim.bf = o.bf /\ sim.spread = o.spread>> >>

\* ---- deposit ----------------------------------------------------------------------------------------------------
\* the mint clauses are Stable!MintChecks (literal clause + rounding-dust clause), in raw base units
ProvideChecks(s, d, curveMint, minted, hasSlip, slip, t) ==
  LET amp == AmpNow(s) IN
  << <<"C15.trio.deposit.tolerance<=1", hasSlip => slip \preceq DEC>>,
     <<"C15.trio.deposit.bound",
        (hasSlip /\ slip \preceq DEC) =>
          StSlipBound((s.res[1] ++ s.res[2]) ++ s.res[3], s.S, (d[1] ++ d[2]) ++ d[3], minted, slip)>>,
     <<"C04.provide.reserves-balances-and-supply-grow-by-the-deposit",
        t.res = [n \in Idx |-> s.res[n] ++ d[n]] /\ t.bal = [n \in Idx |-> s.bal[n] ++ d[n]]
        /\ t.S = s.S ++ minted /\ t.fee = s.fee>>,
     <<"C04.provide.mint=curve-mint", IsNum(curveMint) /\ minted = curveMint>>,
     <<"C04.ramp-untouched", SameRamp(s, t)>> >>
  \o MintChecks("C04", "", minted, s.S, DOf(s.res, amp), DOf(t.res, amp), N(16) ++ Lop(s.res, s.res), N(16) ++ Lop(t.res, t.res))

\* ---- withdrawal -------------------------------------------------------------------------------------------------
WithdrawChecks(s, amt, t) ==
  LET amp == AmpNow(s)
      cap == [n \in Idx |-> (s.res[n] ** amt) // s.S]            \* the pro-rata share, rounded down
      impl == [n \in Idx |-> MulFloor(s.res[n], FromRatio(amt, s.S))]   \* today's formula: 18-decimal ratio, floored twice
      paid == [n \in Idx |-> s.res[n] -- t.res[n]]
  IN << <<"C04.withdraw.pays-at-most-the-proportional-share",
           amt \preceq s.S /\ t.S = s.S -- amt /\ t.fee = s.fee
           /\ \A n \in Idx : t.res[n] \preceq s.res[n] /\ paid[n] \preceq cap[n] /\ t.bal[n] = s.bal[n] -- paid[n]>>,
        <<"drift.withdraw.payout=floor(reserve*floor18(amt/S))", \A n \in Idx : paid[n] = impl[n]>>,
        \* D'/S' >= D/S with floors on both D: (floor D' + 1) * S > D' * S >= D * S' >= floor D * S'
        <<"C04.withdraw.invariant-per-LP-never-decreases",
           (DOf(s.res, amp) ** t.S) \preceq ((DOf(t.res, amp) ++ One) ** s.S)>>,
        <<"C04.ramp-untouched", SameRamp(s, t)>> >>

\* ---- protocol fee collection ----------------------------------------------------------------------------------------
CollectChecks(s, t) ==
  << <<"C04.collect.reserves-and-supply-unchanged", t.res = s.res /\ t.S = s.S>>,
     <<"C04.collect.each-owed-fee-is-paid-in-full-or-kept",
        \A n \in Idx : (t.fee[n] = Zero \/ t.fee[n] = s.fee[n]) /\ t.bal[n] = s.bal[n] -- (s.fee[n] -- t.fee[n])>>,
     <<"C04.ramp-untouched", SameRamp(s, t)>> >>

\* ---- fee ledgers of the trio (C07): pending = charged - sent; all-time counters only grow; burns leave circulation ----
LedgerChecks(s, t) ==
  << <<"C07.trio.pending-ledger=charged-sent",
        \A n \in Idx : /\ s.feeAll[n] \preceq t.feeAll[n] /\ s.col[n] \preceq t.col[n]
                        /\ (s.fee[n] ++ (t.feeAll[n] -- s.feeAll[n])) = (t.fee[n] ++ (t.col[n] -- s.col[n]))>>,
     <<"C07.trio.alltime-counters-only-grow", \A n \in Idx : s.feeAll[n] \preceq t.feeAll[n] /\ s.burned[n] \preceq t.burned[n]>>,
     <<"C07.trio.burned-amounts-leave-circulation",
        \A n \in Idx : t.circ[n] \preceq s.circ[n] /\ (s.circ[n] -- t.circ[n]) = (t.burned[n] -- s.burned[n])>> >>
SwapLedgerChecks(s, j, o, t) ==
  << <<"C07.trio.swap-charges-are-recorded",
        /\ t.feeAll[j] = s.feeAll[j] ++ o.pf /\ t.burned[j] = s.burned[j] ++ o.bf
        /\ \A n \in Idx \ {j} : t.feeAll[n] = s.feeAll[n] /\ t.burned[n] = s.burned[n]>> >>
CollectLedgerChecks(s, t) ==
  << <<"C07.trio.collect-pays-exactly-the-pending-amounts-to-the-collector",
        \A n \in Idx : t.col[n] = s.col[n] ++ (s.fee[n] -- t.fee[n]) /\ t.feeAll[n] = s.feeAll[n]>>,
     <<"C07.trio.collect-leaves-reserves-alone", t.res = s.res /\ t.S = s.S>> >>

Untouched(s, t) == << <<"C04.rejected-or-unrelated.pool-and-ramp-unchanged", SamePool(s, t) /\ SameRamp(s, t)>> >>
=============================================================================
