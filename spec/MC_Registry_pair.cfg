SPECIFICATION Spec
CONSTANTS
  Universe = {"A","B","C","D"}
  Arity = 2
  SchedDepth = 3
  Kind = "pair"
  CanRemove = TRUE
INVARIANTS OnePerSet ReCreate Emit
CHECK_DEADLOCK FALSE
