-------------------------------- MODULE Dec --------------------------------
(* cosmwasm-std 1.5 fixed-point semantics (Decimal / Decimal256) over Num.   *)
(* A decimal is represented by its atomics (value * DEC); DEC = 10^18 in the *)
(* contracts, 10 or 100 in bounded models so that double rounding is visible *)
(* at small magnitudes.  Every operation floors, as the Rust code does.      *)
EXTENDS Num

CONSTANTS DEC,      \* one, in atomics (Num)
          U128MAX   \* largest Uint128 (Num); small in bounded models

Zero == N(0)
One == N(1)
Two == N(2)

MulFloor(x, d) == (x ** d) // DEC          \* Uint * Decimal, Uint256 * Decimal256
FromRatio(a, b) == (a ** DEC) // b         \* Decimal::from_ratio(a, b), b # 0
DecMul(a, b) == (a ** b) // DEC            \* Decimal * Decimal
DecDiv(a, b) == (a ** DEC) // b            \* Decimal / Decimal
DecInv(d) == (DEC ** DEC) // d             \* Decimal::inv, d # 0
MulRatio(x, n, d) == (x ** n) // d         \* Uint::multiply_ratio

Fits128(x) == Zero \preceq x /\ x \preceq U128MAX
Monus(a, b) == IF b \preceq a THEN a -- b ELSE Zero   \* saturating_sub
a \succeq b == b \preceq a
a \succ b == b \prec a

\* named checks: a sequence of <<name, BOOLEAN>>; Failed = names of the false ones
Failed(checks) == { checks[i][1] : i \in { j \in DOMAIN checks : ~checks[j][2] } }
AllOk(checks) == \A i \in DOMAIN checks : checks[i][2]
=============================================================================
