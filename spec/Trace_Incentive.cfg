SPECIFICATION Spec
CONSTANTS
  DEC = "1000000000000000000"
  U128MAX = "340282366920938463463374607431768211455"
  Users = {"user1", "user2", "user3"}
  Rewards = {"uwhale", "uusdc", "rwd", "rwd2", "lp"}
POSTCONDITION Consumed
CHECK_DEADLOCK FALSE
