SPECIFICATION Spec
CONSTANTS
  DEC = "1000000000000000000"
  U128MAX = "340282366920938463463374607431768211455"
  MIN_AMP = "1"
  MAX_AMP = "1000000"
  MAX_AMP_CHANGE = "10"
  MIN_RAMP_BLOCKS = "10000"
POSTCONDITION Consumed
CHECK_DEADLOCK FALSE
