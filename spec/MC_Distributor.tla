---------------------------- MODULE MC_Distributor ----------------------------
(* Bounded instance: all interleavings of NewEpoch (arbitrary inflow), claims by  *)
(* the bonders (any per-epoch reward the rules allow), bond / unbond and grace    *)
(* increases; checks the ledger identities, single payment and roll-over, and     *)
(* emits every behaviour as a schedule.                                           *)
EXTENDS Distributor, Json

CONSTANTS MaxEpochs, Inflows, Grace0, MaxGrace, SchedDepth, EmitSched

VARIABLES st, hist

Init ==
  /\ st = [ eps |-> <<>>, dbal |-> 0, w |-> [u \in Users |-> 0], grace |-> Grace0, paid |-> {},
            first |-> [u \in Users |-> 0], bonded |-> [u \in Users |-> FALSE], cursor |-> [u \in Users |-> -1] ]
  /\ hist = <<>>
Op(o) == hist' = IF EmitSched THEN Append(hist, o) ELSE hist

NewEpoch(inflow) ==
  LET x == Expiring(st)
      roll == IF x = 0 THEN 0 ELSE st.eps[x].available
      e == [id |-> NEp(st) + 1, total |-> inflow + roll, available |-> inflow + roll, claimed |-> 0, rolled |-> FALSE]
      eps1 == IF x = 0 THEN st.eps ELSE [st.eps EXCEPT ![x] = [@ EXCEPT !.available = 0, !.rolled = TRUE]]
      t == [st EXCEPT !.eps = Append(eps1, e), !.dbal = @ + inflow]
  IN /\ NEp(st) < MaxEpochs
     /\ AllOk(NewEpochChecks(st, inflow, t))
     /\ st' = t /\ Op([op |-> "newepoch", u |-> "none", x |-> inflow])

\* epochs u may still be paid for: in the window, newer than its cursor / first bonded epoch, something available
Claimable(u) ==
  { i \in Window(st) : /\ st.eps[i].available > 0 /\ <<u, i>> \notin st.paid
                       /\ (IF st.cursor[u] >= 0 THEN i > st.cursor[u] ELSE i > st.first[u]) }
\* rule layer: any reward not above what is available; here: nothing, half, or everything, per epoch
MaxAvail == LET RECURSIVE M(_)
                M(i) == IF i = 0 THEN 0 ELSE IF st.eps[i].available > M(i - 1) THEN st.eps[i].available ELSE M(i - 1)
            IN M(NEp(st))
RewardChoices(i) == {0, st.eps[i].available \div 2, st.eps[i].available}
Claim(u) ==
  /\ st.bonded[u] /\ Claimable(u) # {}
  /\ \E r \in [Claimable(u) -> 0 .. MaxAvail] :
       /\ \A i \in Claimable(u) : r[i] \in RewardChoices(i)
       /\ LET pay == LET RECURSIVE S(_)
                         S(X) == IF X = {} THEN 0 ELSE LET i == CHOOSE j \in X : TRUE IN r[i] + S(X \ {i})
                     IN S(Claimable(u))
              t == [st EXCEPT !.eps = [i \in 1 .. NEp(st) |->
                                          IF i \in Claimable(u)
                                          THEN [st.eps[i] EXCEPT !.available = @ - r[i], !.claimed = @ + r[i]] ELSE st.eps[i]],
                              !.dbal = @ - pay, !.w[u] = @ + pay,
                              !.paid = @ \cup {<<u, i>> : i \in {j \in Claimable(u) : r[j] > 0}},
                              !.cursor[u] = NEp(st)]
          IN /\ AllOk(ClaimChecks(st, u, t, pay, {i \in 1 .. NEp(st) : i > st.first[u]})) /\ st' = t /\ Op([op |-> "claim", u |-> u, x |-> 0])
Bond(u) == /\ ~st.bonded[u]
           /\ st' = [st EXCEPT !.bonded[u] = TRUE, !.first[u] = NEp(st)] /\ Op([op |-> "bond", u |-> u, x |-> 0])
SetGrace(g) == /\ g > st.grace /\ g <= MaxGrace
               /\ st' = [st EXCEPT !.grace = g] /\ Op([op |-> "setgrace", u |-> "none", x |-> g])
Next == (\E x \in Inflows : NewEpoch(x)) \/ (\E u \in Users : Claim(u) \/ Bond(u)) \/ (\E g \in 1 .. MaxGrace : SetGrace(g))
Spec == Init /\ [][Next]_<<st, hist>>
View == <<st.eps, st.grace, st.paid, st.first, st.bonded, st.cursor>>
Depth == Len(hist) <= SchedDepth

StateOK == AllOk(StateChecks(st))
PaidOnce == \A u \in Users, i \in 1 .. NEp(st) : <<u, i>> \in st.paid => i > st.first[u]
GraceOK == [][st'.grace >= st.grace]_<<st, hist>>
Emit == (EmitSched /\ Len(hist) = SchedDepth) => PrintT(ToJson([k |-> "SCHED", ops |-> hist]))
=============================================================================
