----------------------------- MODULE MC_LairWeight -----------------------------
(* Bounded model of the lair's bonding weights (LairWeight.tla): two or three addresses bond, bond again and      *)
(* unbond at any times.  Question: do the addresses' weights add up to at most the global weight (so that the      *)
(* shares the fee distributor uses add up to at most 100 %) ?                                                       *)
(*   MC_LairWeight.cfg          (Rebond = FALSE: an address bonds once per stay)  - yes.                            *)
(*   MC_LairWeight_witness.cfg  (Rebond = TRUE)                                    - no: bonding again after a pause *)
(*   credits the address with growth for coins it did not hold (DESIGN.md, "Beyond the listed properties").         *)
EXTENDS LairWeight, Integers, FiniteSets, TLC

CONSTANTS Users, Amts, MaxNow, Rate, Rebond, MaxOps

VARIABLES now, bond, glob, ops
vars == <<now, bond, glob, ops>>

SumW(f) == LET RECURSIVE go(_)
               go(X) == IF X = {} THEN 0 ELSE LET x == CHOOSE y \in X : TRUE IN f[x] + go(X \ {x})
           IN go(Users)

Init == now = 1 /\ bond = [u \in Users |-> NoBond] /\ glob = NoBond /\ ops = 0
Tick == now < MaxNow /\ now' = now + 1 /\ UNCHANGED <<bond, glob, ops>>
Bond(u, a) ==
  /\ ops < MaxOps /\ (Rebond \/ bond[u].amt = 0)
  /\ bond' = [bond EXCEPT ![u] = BondRec(@, a, now, Rate)]
  /\ glob' = BondRec(glob, a, now, Rate)
  /\ ops' = ops + 1 /\ UNCHANGED now
Unbond(u, a) ==
  /\ ops < MaxOps /\ 0 < a /\ a <= bond[u].amt
  /\ LET sl == Slash(bond[u], a, now, Rate) IN
       /\ GlobalUnbondOk(glob, sl, now, Rate)
       /\ bond' = [bond EXCEPT ![u] = UnbondRec(@, a, now, Rate)]
       /\ glob' = GlobalUnbondRec(glob, a, sl, now, Rate)
  /\ ops' = ops + 1 /\ UNCHANGED now
Next == Tick \/ \E u \in Users, a \in Amts : Bond(u, a) \/ Unbond(u, a)
Spec == Init /\ [][Next]_vars

WeightNow(u) == Grown(bond[u], now, Rate)
GlobalNow == Grown(glob, now, Rate)
AmountsAddUp == glob.amt = SumW([u \in Users |-> bond[u].amt])
WeightsWithinGlobal == SumW([u \in Users |-> WeightNow(u)]) <= GlobalNow
\* ... at every later time too (an epoch's start may lie anywhere after the last touch)
WeightsWithinGlobalLater ==
  \A t \in now .. MaxNow : SumW([u \in Users |-> Grown(bond[u], t, Rate)]) <= Grown(glob, t, Rate)
=============================================================================
