SPECIFICATION Spec
CONSTANTS
  DEC = 100
  U128MAX = 100000
  MINLIQ = 2
  COLLECT_MIN = 2
  Users = {"u1", "u2"}
  Amt = {1, 2, 3, 5}
  FeeSet = {}
  Wallet0 = 100000
  MaxBal = 14
  MaxS = 9
CONSTRAINT Bounded
VIEW View
INVARIANTS StateOK ImplOK DepositThenWithdraw WithdrawAllLeavesLocked
PROPERTY StepOK
CHECK_DEADLOCK FALSE
