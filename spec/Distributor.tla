----------------------------- MODULE Distributor -----------------------------
(* Fee distributor (C09): per-epoch ledgers total / available / claimed, the    *)
(* roll-over of the epoch that leaves the grace window, claims by bonders.      *)
(* Amounts of the (single) distribution asset; an empty asset list counts as 0. *)
EXTENDS Dec, Sequences, FiniteSets, TLC

CONSTANT Users

(* state: eps : Seq([id, total, available, claimed, rolled])   epochs in creation order (id = index)
          dbal : distributor balance ; w : [Users -> Num] ; grace : Num (as small Int in both back ends: see ToInt)
          paid : set of <<user, epoch id>> ; first : [Users -> Num] first bonded epoch id ; bondedNow : [Users -> BOOLEAN]
          cursor : [Users -> Num] last claimed epoch id ("none" = never claimed)                                      *)

NEp(s) == Len(s.eps)
\* indices of the epochs inside the grace window (the newest `grace`)
Window(s) == { i \in 1 .. NEp(s) : i > NEp(s) - s.grace }
\* the epoch that leaves the window when a new epoch is created: the grace-th newest, if there are that many
Expiring(s) == IF NEp(s) >= s.grace THEN NEp(s) - s.grace + 1 ELSE 0

NewEpochChecks(s, inflow, t) ==
  LET x == Expiring(s)
      roll == IF x = 0 THEN Zero ELSE s.eps[x].available
      e == t.eps[NEp(t)]
  IN << <<"C09.newepoch.one-new-epoch", NEp(t) = NEp(s) + 1>>,
        <<"C09.newepoch.total=inflow+rolled", e.total = inflow ++ roll /\ e.available = e.total /\ e.claimed = Zero>>,
        <<"C09.newepoch.expiring-epoch-emptied", x # 0 => t.eps[x].available = Zero>>,
        <<"C09.newepoch.other-epochs-untouched",
           \A i \in 1 .. NEp(s) : i # x => (t.eps[i].available = s.eps[i].available /\ t.eps[i].claimed = s.eps[i].claimed
                                            /\ t.eps[i].total = s.eps[i].total)>>,
        <<"C09.newepoch.expiring-totals-kept", x # 0 => (t.eps[x].total = s.eps[x].total /\ t.eps[x].claimed = s.eps[x].claimed)>>,
        <<"C09.newepoch.balance+=inflow", t.dbal = s.dbal ++ inflow>> >>

\* a claim by u observed as the per-epoch decrease of `available`
Dec(s, t, i) == s.eps[i].available -- t.eps[i].available
RECURSIVE SumDec(_, _, _)
SumDec(s, t, i) == IF i = 0 THEN Zero ELSE Dec(s, t, i) ++ SumDec(s, t, i - 1)

\* `after` = indices of the epochs that did not start before u bonded
ClaimChecks(s, u, t, payout, after) ==
  << <<"C09.claim.same-epochs", NEp(t) = NEp(s)>>,
     <<"C09.claim.only-decreases-available", \A i \in 1 .. NEp(s) : Zero \preceq Dec(s, t, i)>>,
     <<"C09.claim.claimed+available=total",
        \A i \in 1 .. NEp(s) : t.eps[i].total = s.eps[i].total /\ t.eps[i].claimed = s.eps[i].claimed ++ Dec(s, t, i)>>,
     <<"C09.claim.only-epochs-in-grace-window", \A i \in 1 .. NEp(s) : Zero \prec Dec(s, t, i) => i \in Window(s)>>,
     <<"C09.claim.at-most-once-per-epoch", \A i \in 1 .. NEp(s) : Zero \prec Dec(s, t, i) => <<u, i>> \notin s.paid>>,
     <<"C09.claim.never-for-epochs-before-bonding",
        \A i \in 1 .. NEp(s) : Zero \prec Dec(s, t, i) => i \in after>>,
     <<"C09.claim.payout=ledger-decrease", payout = SumDec(s, t, NEp(s))>>,
     <<"C09.claim.balance-decreases-by-payout", t.dbal = s.dbal -- payout /\ t.w[u] = s.w[u] ++ payout>>,
     <<"C09.claim.others-unpaid", \A v \in Users \ {u} : t.w[v] = s.w[v]>> >>

StateChecks(s) ==
  << <<"C09.ledger.claimed+available=total-until-expiry",
        \A i \in 1 .. NEp(s) : ~s.eps[i].rolled => (s.eps[i].claimed ++ s.eps[i].available) = s.eps[i].total>>,
     <<"C09.ledger.expired-epoch-has-nothing-available", \A i \in 1 .. NEp(s) : s.eps[i].rolled => s.eps[i].available = Zero>>,
     <<"C09.solvent.balance>=sum-available",
        LET RECURSIVE SumAv(_)
            SumAv(i) == IF i = 0 THEN Zero ELSE s.eps[i].available ++ SumAv(i - 1)
        IN SumAv(NEp(s)) \preceq s.dbal>> >>
=============================================================================
