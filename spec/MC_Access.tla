----------------------------- MODULE MC_Access -----------------------------
(* Enumerates the complete matrix contract x privileged variant x role x      *)
(* {before, after ownership transfer}, checks the policy table is coherent,   *)
(* and emits one schedule per (contract, phase) for replay on the real hub.   *)
EXTENDS Access, Json, Naturals

VARIABLES c, phase, done

Init == c = "none" /\ phase = "none" /\ done = {}
Pick == c = "none" /\ \E cc \in Contracts, p \in {"before", "after"} : c' = cc /\ phase' = p /\ done' = {}
Call == c # "none" /\ \E v \in VariantsOf(c), r \in Roles :
          <<v, r>> \notin done /\ done' = done \cup {<<v, r>>} /\ UNCHANGED <<c, phase>>
Next == Pick \/ Call
Spec == Init /\ [][Next]_<<c, phase, done>>
\* exploring all subsets is pointless: the order of calls is chosen by the replayer; keep |done| <= 1
Small == Cardinality(done) <= 1

Coherent ==
  \A i \in DOMAIN Policy :
    LET cc == Policy[i][1]  v == Policy[i][2] IN
      /\ Policy[i][3] \in {"owner", "self", "distributor", "vault"}
      /\ \A p \in {"before", "after"} :
           /\ Authorised(cc, v, p) # {} /\ Authorised(cc, v, p) \subseteq Roles
           /\ Cardinality(Authorised(cc, v, p)) = 1
      \* the old owner loses and the new owner gains the right
      /\ Policy[i][3] = "owner" => /\ Authorised(cc, v, "before") \cap Authorised(cc, v, "after") = {}
                                   /\ "newowner" \in Authorised(cc, v, "after")
      /\ \A j \in DOMAIN Policy : (Policy[j][1] = cc /\ Policy[j][2] = v) => j = i
PositiveListed == \A p \in Positive : Listed(p[1], p[2])

SetToSeq(S) == LET RECURSIVE go(_)
                   go(X) == IF X = {} THEN <<>> ELSE LET x == CHOOSE y \in X : TRUE IN <<x>> \o go(X \ {x})
               IN go(S)
Emit ==
  (c # "none" /\ done = {}) =>
    PrintT(ToJson([k |-> "SCHED", c |-> c, phase |-> phase,
                   calls |-> SetToSeq({[v |-> v, role |-> r, auth |-> IsAuthorised(c, v, r, phase),
                                        positive |-> <<c, v>> \in Positive] : v \in VariantsOf(c), r \in Roles})]))
=============================================================================
