------------------------------- MODULE Epochs -------------------------------
(* Epoch clocks: the epoch manager (with hooks) and the fee distributor's     *)
(* NewEpoch.  A clock only moves forward, one epoch at a time, never early.   *)
EXTENDS Dec, Sequences, FiniteSets, TLC

(* state: kind : "manager" | "distributor" ; id : Num ; start : Num (ns) ; dur : Num ; genesis : Num ;
          now : Num ; hooks : set of hook names ; logs : [AllHooks -> Seq([id, start])]              *)
CONSTANT AllHooks

\* the distributor has no epoch before the first one: id 0, start 0
Pristine(s) == s.kind = "distributor" /\ s.id = Zero /\ s.start = Zero

Due(s) ==
  IF Pristine(s) THEN s.genesis \preceq s.now /\ s.dur \preceq s.now
  ELSE s.start \preceq s.now /\ s.dur \preceq (s.now -- s.start)

NextStart(s) == IF Pristine(s) THEN s.genesis ELSE s.start ++ s.dur

CreateChecks(s) == << <<"C20.create.only-when-duration-elapsed", Due(s)>> >>

CreateNext(s) ==
  LET e == [id |-> s.id ++ One, start |-> NextStart(s)] IN
  [s EXCEPT !.id = e.id, !.start = e.start,
            !.logs = [h \in AllHooks |-> IF h \in s.hooks THEN Append(s.logs[h], e) ELSE s.logs[h]]]

TickNext(s, t) == [s EXCEPT !.now = t]
AddHookNext(s, h) == [s EXCEPT !.hooks = @ \cup {h}]
RemoveHookNext(s, h) == [s EXCEPT !.hooks = @ \ {h}]

\* time classes shared by the model and the replayer
Boundary(s) == IF Pristine(s) THEN NMax(s.genesis, s.dur) ELSE s.start ++ s.dur
TickTarget(s, class) ==
  CASE class = "plus1" -> s.now ++ One
    [] class = "before" -> NMax(s.now ++ One, Boundary(s) -- One)
    [] class = "at" -> NMax(s.now ++ One, Boundary(s))
    [] class = "after" -> NMax(s.now ++ One, Boundary(s) ++ One)
    [] class = "late" -> s.now ++ (N(3) ** s.dur)

\* the clock is anchored at genesis: the manager starts with its first epoch (id `first`: 0, 1 or 5) at genesis (the harness
\* configures start_epoch = (first, genesis)), the distributor's first epoch (id 1) starts at genesis; every later epoch starts a whole number of
\* durations after it (the invariant proved for all parameters in apalache/Ap_Epochs.tla)
ClockChecks(s) ==
  << <<"C20.start=genesis+elapsed-epochs*duration",
        Pristine(s) \/ (s.anchor.id \preceq s.id /\ s.start = s.anchor.start ++ ((s.id -- s.anchor.id) ** s.dur))>> >>

StepChecks(s, t) ==
  << <<"C20.id-moves-by-at-most-one", t.id = s.id \/ t.id = s.id ++ One>>,
     <<"C20.start=previous+duration",
        t.id = s.id ++ One => t.start = NextStart(s)>>,
     <<"C20.unchanged-epoch-keeps-start", t.id = s.id => t.start = s.start>>,
     <<"C20.time-forward", s.now \preceq t.now>> >>
=============================================================================
