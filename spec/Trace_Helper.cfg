SPECIFICATION Spec
CONSTANTS
  DEC = "1000000000000000000"
  U128MAX = "340282366920938463463374607431768211455"
POSTCONDITION Consumed
CHECK_DEADLOCK FALSE
