--------------------------- MODULE Trace_Registry ---------------------------
(* Trace validation of factory registries and router routes (C19).            *)
EXTENDS Registry, Json, IOUtils, Integers

Rec == ndJsonDeserialize(IOEnv.TRACE)
VARIABLES l, live
vars == <<l, live>>

Failed(checks) == { checks[i][1] : i \in { j \in DOMAIN checks : ~checks[j][2] } }
AllOk(checks) == \A i \in DOMAIN checks : checks[i][2]

\* addresses of the live entries according to the observation (one per asset set, first permutation)
LiveAddrs(o) == { o.sets[i].perms[1].addr : i \in { j \in DOMAIN o.sets : SeqToSet(o.sets[j].set) \in live } }

\* asset sets whose factory storage key (sorted raw ids, concatenated) coincides with that of another set:
\* for those the registry cannot tell the sets apart (known finding S13); they are judged by one named check
Colliding(o) == { i \in DOMAIN o.sets : \E j \in DOMAIN o.sets : j # i /\ o.sets[j].key = o.sets[i].key }
Clean(o) == DOMAIN o.sets \ Colliding(o)
SetOK(o, lv, i) ==
  /\ (o.sets[i].perms[1].addr # "none") <=> (SeqToSet(o.sets[i].set) \in lv)
  /\ \A p \in DOMAIN o.sets[i].perms :
       LET e == o.sets[i].perms[p] IN
         e.addr # "none" => /\ e.child.addr # "err" /\ e.entry = e.child
                            /\ SeqToSet([k \in DOMAIN e.entry.assets |-> e.entry.assets[k].a]) = SeqToSet(o.sets[i].set)

ObsChecks(o, lv) ==
  << <<"C19.registry-key-injective", \A i \in Colliding(o) : SetOK(o, lv, i)>>,
     <<"C19.query.permutation-insensitive",
        \A i \in DOMAIN o.sets : \A p, q \in DOMAIN o.sets[i].perms : o.sets[i].perms[p].addr = o.sets[i].perms[q].addr>>,
     <<"C19.query.matches-registry",
        \A i \in Clean(o) : (o.sets[i].perms[1].addr # "none") <=> (SeqToSet(o.sets[i].set) \in lv)>>,
     <<"C19.entry=child-report",
        \A i \in Clean(o) : \A p \in DOMAIN o.sets[i].perms :
          LET e == o.sets[i].perms[p] IN
            e.addr # "none" =>
              /\ e.child.addr # "err" /\ e.entry = e.child
              /\ SeqToSet([k \in DOMAIN e.entry.assets |-> e.entry.assets[k].a]) = SeqToSet(o.sets[i].set)>>,
     <<"C19.one-child-per-set",
        \A i, j \in Clean(o) : (i # j /\ o.sets[i].perms[1].addr # "none") => o.sets[i].perms[1].addr # o.sets[j].perms[1].addr>>,
     <<"C19.pagination.each-entry-exactly-once",
        \A pg \in DOMAIN o.pages :
          LET a == o.pages[pg].addrs IN
            /\ \A x, y \in DOMAIN a : x # y => a[x] # a[y]
            /\ SeqToSet(a) = { o.sets[i].perms[1].addr : i \in { j \in DOMAIN o.sets : o.sets[j].perms[1].addr # "none" } }>> >>

\* is the asset set of this message one of the colliding ones ?
PermColliding(o, perm) == \E i \in Colliding(o) : SeqToSet(o.sets[i].set) = SeqToSet(perm)
Name(o, perm, n) == IF PermColliding(o, perm) THEN "C19.registry-key-injective" ELSE n

\* the router's own registry tells the truth: a stored route is reported as stored, a refused one changes nothing
RouteReport(ev) ==
  << <<"C19.router.stored-route-is-reported", ev.res = "ok" => ev.obs.reported = "same">>,
     <<"C19.router.refused-route-changes-nothing", ev.res # "ok" => ev.obs.reported = ev.obs.reported_before>> >>

EvChecks(ev) ==
  CASE ev.ev = "create" ->
         << <<Name(ev.obs, ev.args.perm, "C19.create.duplicate-rejected"), SeqToSet(ev.args.perm) \in live => ev.res # "ok">>,
            <<Name(ev.obs, ev.args.perm, "C19.create.absent-set-accepted"), AllOk(CreateChecks(live, ev.args.perm)) => ev.res = "ok">>,
            <<"C19.create.same-asset-twice-rejected", Cardinality(SeqToSet(ev.args.perm)) # Len(ev.args.perm) => ev.res # "ok">>,
            <<"C19.rejected.unchanged", ev.res # "ok" => ev.dpre = ev.dpost>> >>
         \o ObsChecks(ev.obs, IF ev.res = "ok" THEN CreateNext(live, ev.args.perm) ELSE live)
    [] ev.ev = "remove" ->
         << <<Name(ev.obs, ev.args.perm, "C19.remove.absent-rejected"), SeqToSet(ev.args.perm) \notin live => ev.res # "ok">>,
            <<Name(ev.obs, ev.args.perm, "C19.remove.live-accepted"), SeqToSet(ev.args.perm) \in live => ev.res = "ok">>,
            <<"C19.rejected.unchanged", ev.res # "ok" => ev.dpre = ev.dpost>> >>
         \o ObsChecks(ev.obs, IF ev.res = "ok" THEN RemoveNext(live, ev.args.perm) ELSE live)
    [] ev.ev = "route_add" ->
         << <<"C19.router.stores-only-registered-hops", ev.res = "ok" => SeqToSet(ev.args.perm) \in live>>,
            <<"C19.router.registered-flag", ev.obs.registered = (SeqToSet(ev.args.perm) \in live)>> >> \o RouteReport(ev)
    [] ev.ev = "route_add2" ->
         LET h1 == {ev.args.path[1], ev.args.path[2]}  h2 == {ev.args.path[2], ev.args.path[3]} IN
         << <<"C19.router.stores-only-registered-hops", ev.res = "ok" => (h1 \in live /\ h2 \in live)>>,
            <<"C19.router.registered-flag", ev.obs.registered = <<h1 \in live, h2 \in live>> >> >> \o RouteReport(ev)
    [] ev.ev = "route_exec" ->
         << <<"C19.router.executes-only-registered-hops", ev.res = "ok" => SeqToSet(ev.args.perm) \in live>> >>
    [] ev.ev = "reset" -> ObsChecks(ev.obs, {})
    [] OTHER -> << <<"TRACE.unknown-event", FALSE>> >>

Report(ev, bad) ==
  IF bad = {} THEN TRUE
  ELSE PrintT(ToJson([k |-> "BAD", run |-> ev.run, step |-> IF ev.ev = "reset" THEN -1 ELSE ev.step,
                      line |-> l, ev |-> ev.ev, bad |-> bad]))
Init == l = 1 /\ live = {}
Next ==
  /\ l <= Len(Rec)
  /\ LET ev == Rec[l] IN
       /\ Report(ev, Failed(EvChecks(ev)))
       /\ live' = IF ev.ev = "reset" THEN {}
                  ELSE IF ev.ev \in {"create", "remove"}
                       THEN \* continue from what the registry actually reports
                            { SeqToSet(ev.obs.sets[i].set) : i \in { j \in DOMAIN ev.obs.sets : ev.obs.sets[j].perms[1].addr # "none" } }
                       ELSE live
  /\ l' = l + 1
Spec == Init /\ [][Next]_vars
Consumed ==
  /\ PrintT(ToJson([k |-> "CONSUMED", consumed |-> TLCGet("stats").diameter - 1, lines |-> Len(Rec)]))
  /\ TLCGet("stats").diameter - 1 = Len(Rec)
=============================================================================
