------------------------------ MODULE MC_Stable ------------------------------
(* Exhaustive small-domain check of the independent curve oracle itself and of  *)
(* the statements of C03 / C04 at the level of the curve (Int back end): D is    *)
(* monotone in every reserve, a swap along the curve never returns more than     *)
(* the ask reserve, returns are monotone in the offer, there-and-back along the  *)
(* curve never gains, and pro-rata minting keeps D per share from falling.       *)
EXTENDS Stable, Naturals

CONSTANTS NTop, Amps
VARIABLES x, y

Init == x = 0 /\ y = 0
Next == \/ x = 0 /\ x' \in 1 .. NTop /\ y' = 0
        \/ x > 0 /\ y = 0 /\ y' \in 1 .. NTop /\ x' = x
Spec == Init /\ [][Next]_<<x, y>>

Curve2OK ==
  (x > 0 /\ y > 0) => \A amp \in Amps :
    LET D == Dstar2(x, y, amp) IN
      /\ P2(x, y, D, amp * 2) <= 0 /\ P2(x, y, D + 1, amp * 2) > 0
      /\ D <= x + y
      /\ Dstar2(x + 1, y, amp) >= D
      /\ \A off \in 1 .. NTop :
           LET y1 == Ystar2(x + off, D, amp) IN
             /\ y1 <= y /\ y1 >= 0                                   \* never pays more than the reserve
             /\ Ystar2(x + off + 1, D, amp) <= y1                    \* more offer, no less proceeds
             /\ H2(x + off, y1, D, amp * 2) >= 0 /\ (y1 > 0 => H2(x + off, y1 - 1, D, amp * 2) < 0)
             \* there and straight back along the curve of the state after the first swap
             /\ LET got == y - y1
                    D2 == Dstar2(x + off, y1, amp)
                    x2 == Ystar2(y1 + got, D2, amp)
                \* (the oracle floors D, which favours the trader by at most one unit on the way back)
                IN y1 = 0 \/ (x + off) - x2 <= off + 1
Curve3OK ==
  (x > 0 /\ y > 0) => \A amp \in Amps, z \in {1, 2, NTop \div 2} :
    LET D == Dstar3(x, y, z, amp) IN
      /\ P3(x, y, z, D, amp * 3) <= 0 /\ P3(x, y, z, D + 1, amp * 3) > 0
      /\ D <= x + y + z /\ Dstar3(x + 1, y, z, amp) >= D
      /\ \A off \in {1, 2, NTop \div 2} :
           LET y1 == Ystar3(x + off, z, D, amp) IN
             /\ y1 <= y /\ Ystar3(x + off + 1, z, D, amp) <= y1
RampOK ==
  \A init \in {1, 5, 50}, target \in {1, 5, 50} : \A now \in 0 .. 6 :
    LET a == AmpAt(init, target, now, 1, 5) IN
      now >= 1 => /\ (IF init <= target THEN init <= a /\ a <= target ELSE target <= a /\ a <= init)
                  /\ (now >= 5 => a = target) /\ (now = 1 => a = init)
=============================================================================
