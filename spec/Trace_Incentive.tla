--------------------------- MODULE Trace_Incentive ---------------------------
(* Trace validation of the real incentive contract against Incentive.tla.      *)
EXTENDS Incentive, Json, IOUtils

Rec == ndJsonDeserialize(IOEnv.TRACE)
VARIABLES l, st, meta, lastClaim, cbs
vars == <<l, st, meta, lastClaim, cbs>>

Unchanged(ev) == << <<"C11.rejected.unchanged", ev.dpre = ev.dpost>> >>
Untouched(s, t) ==
  << <<"C11.unrelated-call.custody-unchanged", t.lpbal = s.lpbal /\ OthersSame(s, t, {})>>,
     <<"C12.unrelated-call.flows-unchanged", t.flows = s.flows /\ t.rbal = s.rbal>> >>

\* has a position been closed in this run ?
NextCbs(ev, t) == IF ev.ev = "close" /\ ev.res = "ok" THEN TRUE ELSE cbs

Ident(ev) == IF ev.args.lbl = "" THEN [k |-> "id", id |-> ev.args.id, label |-> ""]
             ELSE [k |-> "label", id |-> -1, label |-> ev.args.lbl]
EvChecks(ev, t) ==
  LET u == ev.actor IN
  (IF ev.res # "ok" THEN Unchanged(ev)
   ELSE CASE ev.ev = "open" -> OpenChecks(st, t, u, ev.args.recv, ev.args.dur, ev.args.amt, FALSE)
          [] ev.ev = "expand" -> OpenChecks(st, t, u, ev.args.recv, ev.args.dur, ev.args.amt, TRUE)
          [] ev.ev = "close" -> CloseChecks(st, t, u, ev.args.dur)
          [] ev.ev = "withdraw" -> WithdrawChecks(st, t, u)
          [] ev.ev = "openflow" -> OpenFlowChecks(st, t, u, meta.fee_asset, meta.fee)
          [] ev.ev = "expandflow" -> ExpandFlowChecks(st, t, Ident(ev))
          [] ev.ev = "closeflow" -> CloseFlowChecks(st, t, u, Ident(ev), ev.args.by = "owner")
          [] ev.ev = "claim" -> ClaimChecks(st, t, u, ev.pre.rewards.r, ev.pre.rewards.res = "ok", lastClaim[u])
                                \o EmissionChecks(st, t, u, ev.out.pays, ev.out.flows, lastClaim[u])
          [] ev.ev \in {"snapshot", "newepoch"} -> Untouched(st, t)
          [] OTHER -> << <<"TRACE.unknown-event", FALSE>> >>)
  \o StateChecksC11(t) \o StateChecksC12(t) \o StateChecksC13(t) \o SharesChecks(t, NextCbs(ev, t))

Report(ev, bad) ==
  IF bad = {} THEN TRUE
  ELSE PrintT(ToJson([k |-> "BAD", run |-> ev.run, step |-> IF ev.ev = "reset" THEN -1 ELSE ev.step,
                      line |-> l, ev |-> ev.ev, bad |-> bad]))
Init == l = 1 /\ st = [lpbal |-> "0"] /\ meta = [fee |-> "0"] /\ lastClaim = [u \in Users |-> -1] /\ cbs = FALSE
Next ==
  /\ l <= Len(Rec)
  /\ LET ev == Rec[l] IN
       IF ev.ev = "reset"
       THEN st' = ev.obs /\ meta' = ev.cfg /\ lastClaim' = [u \in Users |-> -1] /\ cbs' = FALSE
       ELSE /\ Report(ev, Failed(EvChecks(ev, ev.obs)))
            /\ st' = ev.obs /\ meta' = meta /\ cbs' = NextCbs(ev, ev.obs)
            /\ lastClaim' = IF ev.ev = "claim" /\ ev.res = "ok" THEN [lastClaim EXCEPT ![ev.actor] = st.epoch] ELSE lastClaim
  /\ l' = l + 1
Spec == Init /\ [][Next]_vars
Consumed ==
  /\ PrintT(ToJson([k |-> "CONSUMED", consumed |-> TLCGet("stats").diameter - 1, lines |-> Len(Rec)]))
  /\ TLCGet("stats").diameter - 1 = Len(Rec)
=============================================================================
