--------------------------- MODULE Trace_Incentive ---------------------------
(* Trace validation of the real incentive contract against Incentive.tla.      *)
EXTENDS Incentive, WeightHist, Json, IOUtils

Rec == ndJsonDeserialize(IOEnv.TRACE)
VARIABLES l, st, meta, lastClaim, cbs, wstart, sh, taint, wh
vars == <<l, st, meta, lastClaim, cbs, wstart, sh, taint, wh>>

Unchanged(ev) == << <<"C11.rejected.unchanged", ev.dpre = ev.dpost>> >>
Untouched(s, t) ==
  << <<"C11.unrelated-call.custody-unchanged", t.lpbal = s.lpbal /\ OthersSame(s, t, {})>>,
     <<"C12.unrelated-call.flows-unchanged", t.flows = s.flows /\ t.rbal = s.rbal>> >>

\* has a position been closed in this run ?
NextCbs(ev, t) == IF ev.ev = "close" /\ ev.res = "ok" THEN TRUE ELSE cbs
\* Known finding S9, as narrowly as its two mechanisms allow (so that it hides as little else as possible): (a) a position
\* closed in the running epoch before that epoch's snapshot - the snapshot then has the reduced global weight while the
\* closer's history still carries the old weight for this epoch; (b) an address that has closed a position and claims
\* afterwards - the claim deletes its weight history and re-writes the last weight its walk saw, which can be a pre-close
\* one (the walk starts from the earliest entry and only reads the entries of epochs in which a flow is active).
\* taint = [ep : (a) holds for the running epoch, ever : who has closed a position, stale : who did (b)]
NoTaint == [ep |-> FALSE, ever |-> [u \in Users |-> FALSE], stale |-> [u \in Users |-> FALSE]]
NextTaint(ev) ==
  IF ev.res # "ok" THEN taint
  ELSE CASE ev.ev = "newepoch" -> [taint EXCEPT !.ep = FALSE]
         [] ev.ev = "close" -> [taint EXCEPT !.ever[ev.actor] = TRUE, !.ep = @ \/ ~st.snapshot]
         [] ev.ev = "claim" -> [taint EXCEPT !.stale[ev.actor] = @ \/ taint.ever[ev.actor]]
         [] OTHER -> taint
Tainted(tt) == tt.ep \/ \E u \in Users : tt.stale[u]

\* ---- the weight histories as WeightHist.tla keeps them ----------------------------------------------------------
\* wh : [Users -> Seq([e, w])] is the specification's own: set from the observation at a reset only, then moved by the
\* transcribed operators and never re-aligned with what the contract stores (design rule 1).
ClaimFlows(ev, cur) ==
  LET av == SelectSeq(ev.pre.flows, LAMBDA f : f.start <= cur) IN
  [i \in DOMAIN av |-> [start |-> av[i].start, fend |-> FinalEnd(av[i]),
                        skip |-> cur > FinalEnd(av[i]) /\ av[i].claimed = FinalAmount(av[i])]]
NextWh(ev, t) ==
  IF ev.res # "ok" THEN wh
  ELSE CASE ev.ev \in {"open", "expand"} -> [wh EXCEPT ![ev.args.recv] = AfterChange(@, st.epoch, t.aw[ev.args.recv])]
         [] ev.ev = "close" -> [wh EXCEPT ![ev.actor] = AfterChange(@, st.epoch, t.aw[ev.actor])]
         [] ev.ev = "claim" -> [wh EXCEPT ![ev.actor] = AfterClaim(@, ClaimFlows(ev, st.epoch), st.epoch, lastClaim[ev.actor])]
         [] OTHER -> wh
\* what the share query answers according to the transcription, given the snapshot the validator saw being taken
ModelShare(h, t, gws) == ShareOf(ShareWeight(h, t.epoch), gws)
\* the transcription itself puts this epoch's shares above 100 %: known finding S9 at work
S9Predicted(w2, t, ws) ==
  t.snapshot /\ ws.ep = t.epoch /\ DEC \prec SetSum([v \in Users |-> ModelShare(w2[v], t, ws.gw)], Users)

Ident(ev) == IF ev.args.lbl = "" THEN [k |-> "id", id |-> ev.args.id, label |-> ""]
             ELSE [k |-> "label", id |-> -1, label |-> ev.args.lbl]
\* ---- the claim as Emission.tla walks it ----------------------------------------------------------------------
\* sh : Seq([e, s]) - the shares the contract reported in epoch e when its snapshot was first seen (a later claim wipes
\* the claimer's history, so later answers for the same epoch say nothing)
ShAt(e, u) == LET c == SelectSeq(sh, LAMBDA r : r.e = e) IN IF c = <<>> THEN Zero ELSE c[1].s[u]
NextSh(t) == IF t.snapshot /\ ~(\E i \in DOMAIN sh : sh[i].e = t.epoch) THEN Append(sh, [e |-> t.epoch, s |-> t.share]) ELSE sh
\* all flows that have started, in storage order (as recorded before the claim), one walk each
RECURSIVE WalkAll(_, _, _, _, _)
WalkAll(flows, i, u, cur, res) ==
  IF i > Len(flows) \/ (res # <<>> /\ ~res[Len(res)].ok) THEN res
  ELSE LET f == flows[i] IN
       IF f.start > cur THEN WalkAll(flows, i + 1, u, cur, res)
       ELSE LET first == IF lastClaim[u] >= 0 THEN lastClaim[u] + 1 ELSE f.start
                acc == ClaimWalk(f, first, cur, [e \in 0 .. cur |-> ShAt(e, u)],
                                 [ok |-> TRUE, why |-> "", em |-> f.em, claimed |-> f.claimed, pays |-> <<>>, id |-> f.id, asset |-> f.asset])
            IN WalkAll(flows, i + 1, u, cur, Append(res, acc))
RECURSIVE SumPays(_)
SumPays(ps) == IF ps = <<>> THEN Zero ELSE Head(ps).x ++ SumPays(Tail(ps))
\* drift: the transcription of today's loop predicts the verdict, every flow's ledger and claimed amount, and what is paid
\* (histories with a closed position are left out: known finding S9 makes the reported shares unreliable there)
WalkChecks(ev, t, u) ==
  IF cbs \/ (ev.res # "ok" /\ ev.out.why = "other") THEN <<>>
  ELSE LET res == WalkAll(ev.pre.flows, 1, u, st.epoch, <<>>)
           ok == res = <<>> \/ res[Len(res)].ok
           why == IF ok THEN "" ELSE res[Len(res)].why
           post(id) == LET c == SelectSeq(ev.out.flows, LAMBDA f : f.id = id) IN c[1]
       IN << <<"drift.claim.walk.verdict", ok = (ev.res = "ok") /\ (ev.res # "ok" => why = ev.out.why)>> >>
          \o (IF ev.res = "ok" /\ ok
              THEN << <<"drift.claim.walk.ledger-and-claimed",
                         \A i \in DOMAIN res : post(res[i].id).em = res[i].em /\ FlowById(t, res[i].id).claimed = res[i].claimed>>,
                      <<"drift.claim.walk.paid",
                         \A a \in Rewards :
                           t.rw[u][a] -- st.rw[u][a] =
                             SumPays([i \in DOMAIN res |-> [x |-> IF res[i].asset = a THEN SumPays(res[i].pays) ELSE Zero]])>> >>
              ELSE <<>>)

\* Beyond the listed properties (DESIGN.md): a claim by a staker is refused for good ("Invalid reward", a division by zero)
\* in the situations MC_Emission.tla exhibits.  Reported under X. names: counted, never a violation.
RefusalChecks(ev) ==
  IF ev.ev = "claim" /\ ev.res # "ok"
  THEN << <<"X.claim.never-refused-as-invalid-reward(no-position-closed-so-far)", ~(ev.out.why = "invalid-reward" /\ ~cbs)>>,
          <<"X.claim.never-refused-by-a-division-by-zero", ev.out.why # "divide-by-zero">> >>
  ELSE <<>>
\* Beyond the listed properties: the share the contract reports for a staker in an epoch ought to be the weight the staker
\* entered the epoch with over the global weight at the snapshot.  wstart = [aw: the address weights when the epoch began,
\* gw: the global weight when its snapshot was taken, ep: the epoch of that snapshot].  A staker who has claimed in the
\* epoch is not looked at (its history up to the epoch is deleted by the claim), nor is any history with a closed position
\* (known finding S9).
NextWstart(ev, t) ==
  IF ev.res # "ok" THEN wstart
  ELSE IF ev.ev = "newepoch" THEN [wstart EXCEPT !.aw = t.aw]
  \* the epoch's snapshot is the specification's own: the FIRST one taken in the epoch (a snapshot taken again in the same
  \* epoch must not become the yardstick of the shares it distorts)
  ELSE IF ev.ev = "snapshot" THEN (IF wstart.ep = t.epoch THEN wstart ELSE [wstart EXCEPT !.gw = t.gw, !.ep = t.epoch])
  ELSE wstart
ShareChecksX(ev, t, lc) ==
  LET w == NextWstart(ev, t) IN
  << <<"X.share=weight-at-the-start-of-the-epoch/snapshot",
        (t.snapshot /\ w.ep = t.epoch /\ ~NextCbs(ev, t) /\ Zero \prec w.gw) =>
           \A v \in Users : lc[v] = t.epoch \/ t.share[v] = FromRatio(w.aw[v], w.gw)>> >>
\* drift (it restates today's code): the contract's stored histories and the answers of its share query are the ones
\* the transcription arrives at.  "former-S9-neighbourhood" keeps count of how much the old, wider excuse covered.
WhChecks(ev, t) ==
  LET w2 == NextWh(ev, t)  ws == NextWstart(ev, t) IN
  << <<"drift.weight-history=WeightHist-transcription", \A v \in Users : t.wh[v] = w2[v]>>,
     <<"drift.share=share-of-the-transcribed-history",
        (t.snapshot /\ ws.ep = t.epoch) => \A v \in Users : t.share[v] = ModelShare(w2[v], t, ws.gw)>>,
     <<"drift.S9-predicted-only-inside-its-former-neighbourhood",
        S9Predicted(w2, t, ws) => Tainted(NextTaint(ev))>> >>
EvChecks(ev, t) ==
  LET u == ev.actor IN
  (IF ev.res # "ok" THEN Unchanged(ev) \o RefusalChecks(ev) \o (IF ev.ev = "claim" THEN WalkChecks(ev, t, u) ELSE <<>>)
   ELSE CASE ev.ev = "open" -> OpenChecks(st, t, u, ev.args.recv, ev.args.dur, ev.args.amt, FALSE)
          [] ev.ev = "expand" -> OpenChecks(st, t, u, ev.args.recv, ev.args.dur, ev.args.amt, TRUE)
          [] ev.ev = "close" -> CloseChecks(st, t, u, ev.args.dur)
          [] ev.ev = "withdraw" -> WithdrawChecks(st, t, u)
          [] ev.ev = "openflow" -> OpenFlowChecks(st, t, u, meta.fee_asset, meta.fee)
          [] ev.ev = "expandflow" -> ExpandFlowChecks(st, t, Ident(ev))
          [] ev.ev = "closeflow" -> CloseFlowChecks(st, t, u, Ident(ev), ev.args.by = "owner")
          [] ev.ev = "claim" -> ClaimChecks(st, t, u, ev.pre.rewards.r, ev.pre.rewards.res = "ok", lastClaim[u])
                                \o EmissionChecks(st, t, u, ev.out.pays, ev.out.flows, lastClaim[u])
                                \o WalkChecks(ev, t, u)
          [] ev.ev \in {"snapshot", "newepoch"} -> Untouched(st, t)
          [] OTHER -> << <<"TRACE.unknown-event", FALSE>> >>)
  \o StateChecksC11(t) \o StateChecksC12(t) \o StateChecksC13(t)
  \o SharesChecks(t, S9Predicted(NextWh(ev, t), t, NextWstart(ev, t)))
  \o WhChecks(ev, t)
  \o ShareChecksX(ev, t, IF ev.ev = "claim" /\ ev.res = "ok" THEN [lastClaim EXCEPT ![ev.actor] = st.epoch] ELSE lastClaim)

Report(ev, bad) ==
  IF bad = {} THEN TRUE
  ELSE PrintT(ToJson([k |-> "BAD", run |-> ev.run, step |-> IF ev.ev = "reset" THEN -1 ELSE ev.step,
                      line |-> l, ev |-> ev.ev, bad |-> bad]))
Init == /\ l = 1 /\ st = [lpbal |-> "0"] /\ meta = [fee |-> "0"] /\ lastClaim = [u \in Users |-> -1] /\ cbs = FALSE
        /\ wstart = [aw |-> [u \in Users |-> Zero], gw |-> Zero, ep |-> -1] /\ sh = <<>> /\ taint = NoTaint
        /\ wh = [u \in Users |-> <<>>]
Next ==
  /\ l <= Len(Rec)
  /\ LET ev == Rec[l] IN
       IF ev.ev = "reset"
       THEN /\ st' = ev.obs /\ meta' = ev.cfg /\ lastClaim' = [u \in Users |-> -1] /\ cbs' = FALSE
            /\ wstart' = [aw |-> ev.obs.aw, gw |-> Zero, ep |-> -1] /\ sh' = <<>> /\ taint' = NoTaint
            /\ wh' = [u \in Users |-> ev.obs.wh[u]]
       ELSE /\ Report(ev, Failed(EvChecks(ev, ev.obs)))
            /\ st' = ev.obs /\ meta' = meta /\ cbs' = NextCbs(ev, ev.obs) /\ wstart' = NextWstart(ev, ev.obs) /\ sh' = NextSh(ev.obs) /\ taint' = NextTaint(ev)
            /\ wh' = NextWh(ev, ev.obs)
            /\ lastClaim' = IF ev.ev = "claim" /\ ev.res = "ok" THEN [lastClaim EXCEPT ![ev.actor] = st.epoch] ELSE lastClaim
  /\ l' = l + 1
Spec == Init /\ [][Next]_vars
Consumed ==
  /\ PrintT(ToJson([k |-> "CONSUMED", consumed |-> TLCGet("stats").diameter - 1, lines |-> Len(Rec)]))
  /\ TLCGet("stats").diameter - 1 = Len(Rec)
=============================================================================
