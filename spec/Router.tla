------------------------------- MODULE Router -------------------------------
(* Multi-hop router (terraswap_router): the router clauses of C15 and C14.   *)
(*                                                                           *)
(* A route is a transaction of several messages, as in the code:             *)
(*   Start    the offer is moved from the sender to the router, the          *)
(*            receiver's balance of the final asset is recorded              *)
(*   Hop k    the router swaps its WHOLE balance of the k-th asset on the    *)
(*            k-th pool; the last hop pays the receiver                      *)
(*   Assert   receiver's balance now - recorded balance >= minimum_receive,  *)
(*            otherwise the whole transaction reverts                        *)
(* MC_Router executes these steps one by one on bounded pools.  The clause   *)
(* operators below judge a finished transaction, in the model and on the     *)
(* real router alike (Trace_Router).                                         *)
EXTENDS Dec, Sequences, TLC

\* min is only read when hasMin; gains are Num (balance of the receiver after minus before)
RouteChecks(hasMin, min, ok, gain, retryOk, retryGain, unchanged) ==
  << <<"C15.router.success=>receiver-gained>=minimum", (ok /\ hasMin) => min \preceq gain>>,
     \* the same request, in the same state, without a minimum went through and paid at least the minimum:
     \* the rejection was not justified by the limit
     <<"C15.router.request-within-minimum-not-rejected", (~ok /\ hasMin /\ retryOk) => retryGain \prec min>>,
     <<"C15.router.rejected-leaves-everything-unchanged", ~ok => unchanged>> >>

\* the simulation of the same operations in the same state; judged under its own name when the router holds
\* stray funds (which the next route sweeps along: finding S22)
SimChecks(simOk, simAmount, ok, gain, retryOk, retryGain, stray) ==
  LET sfx == IF stray THEN "(router-holding-stray-funds)" ELSE "" IN
  << <<"C14.router.simulation=receiver-gain" \o sfx,
        /\ ok => (simOk /\ simAmount = gain)
        /\ (~ok /\ retryOk) => (simOk /\ simAmount = retryGain)>> >>
=============================================================================
