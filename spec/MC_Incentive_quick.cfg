SPECIFICATION Spec
CONSTANTS
  Users = {"u1", "u2"}
  Durs = {2}
  Amts = {1, 2}
  ExpandDelta = TRUE
  MaxLp = 3
  MaxEpoch = 2
  SchedDepth = 0
  EmitSched = FALSE
  FlowAmts = {}
VIEW View
CONSTRAINT Bounded
INVARIANTS Custody WeightsAddUp WeightMatchesPositions FlowsCovered WeightFn
CHECK_DEADLOCK FALSE
