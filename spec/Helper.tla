------------------------------- MODULE Helper -------------------------------
(* Frontend helper (frontend-helper clause of C11): one call deposits into a  *)
(* pair and stakes the minted LP in the pair's incentive contract for the      *)
(* caller.  As in the code it is a transaction of several messages:            *)
(*   Pull     cw20 deposits are pulled from the caller (allowance = amount)    *)
(*   Provide  the pair mints LP to the helper                                  *)
(*   Stake    the helper opens / expands the caller's position with its WHOLE  *)
(*            LP balance (receiver = caller)                                   *)
(* Snapshots `pre` / `post`: helper [lp, a], user [lp, a], inc_lp (LP held by  *)
(* the incentive contract), S (LP supply), pos (the caller's open position of  *)
(* the requested duration), pair (the pair's balances).                        *)
EXTENDS Dec, Sequences, TLC

DepositChecks(pre, post, d, ok, unchanged) ==
  LET got == post.inc_lp -- pre.inc_lp IN
  << <<"C11.helper.retains-no-LP", ok => post.helper.lp \preceq pre.helper.lp>>,
     <<"C11.helper.retains-no-deposited-assets", ok => \A i \in 1 .. 2 : post.helper.a[i] \preceq pre.helper.a[i]>>,
     <<"C11.helper.position-grows-by-the-LP-the-incentive-received",
        ok => (pre.inc_lp \preceq post.inc_lp /\ pre.pos \preceq post.pos /\ post.pos -- pre.pos = got)>>,
     <<"C11.helper.all-minted-LP-is-staked-for-the-depositor",
        ok => (/\ pre.S \preceq post.S /\ post.helper.lp \preceq pre.helper.lp
               /\ got = (post.S -- pre.S) ++ (pre.helper.lp -- post.helper.lp)
               /\ post.user.lp = pre.user.lp)>>,
     <<"C11.helper.depositor-pays-exactly-the-stated-amounts",
        ok => \A i \in 1 .. 2 : post.user.a[i] \preceq pre.user.a[i] /\ pre.user.a[i] -- post.user.a[i] = d[i]>>,
     <<"C11.helper.pair-receives-the-deposit",
        ok => \A i \in 1 .. 2 : post.pair[i] = pre.pair[i] ++ d[i]>>,
     <<"C11.helper.rejected-changes-nothing", ~ok => unchanged>> >>
=============================================================================
