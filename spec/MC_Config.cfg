SPECIFICATION Spec
CONSTANTS
  DEC = 100
  U128MAX = 100000
  MAXAMP = 1000
  MAXGRACE = 5
  MINDUR = 10
  SchedDepth = 3
CONSTRAINT Depth
INVARIANTS ConfigOK Emit
PROPERTY GraceMonotone
CHECK_DEADLOCK FALSE
