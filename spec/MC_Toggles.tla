----------------------------- MODULE MC_Toggles -----------------------------
(* Full product: target x 2^3 flag combinations x {liquidity, none}; every     *)
(* path of every operation, under the chosen flags and again after everything  *)
(* has been re-enabled.  One schedule per (target, flags, liquidity).          *)
EXTENDS Toggles, Json, Naturals

VARIABLES target, flags, liq, phase   \* phase: "none" -> "set" -> "restored"

AllOn == [deposit |-> TRUE, withdraw |-> TRUE, third |-> TRUE]
Init == target = "none" /\ flags = AllOn /\ liq = TRUE /\ phase = "none"
Choose == phase = "none" /\ \E t \in Targets, f \in Flags, b \in BOOLEAN :
            target' = t /\ flags' = f /\ liq' = b /\ phase' = "set"
Restore == phase = "set" /\ flags' = AllOn /\ phase' = "restored" /\ UNCHANGED <<target, liq>>
Next == Choose \/ Restore
Spec == Init /\ [][Next]_<<target, flags, liq, phase>>

\* design-level sanity: in the restored phase every guarded operation is expected to work again,
\* and under the chosen flags exactly the operations whose flag is off are expected to be rejected
Expect(op) == flags[Guard(op)]
Sane == phase = "restored" => \A p \in PathsOf(target) : Expect(p[2])
SetToSeq(S) == LET RECURSIVE go(_)
                   go(X) == IF X = {} THEN <<>> ELSE LET x == CHOOSE y \in X : TRUE IN <<x>> \o go(X \ {x})
               IN go(S)
Emit == phase = "set" =>
  PrintT(ToJson([k |-> "SCHED", target |-> target, flags |-> flags, liq |-> liq,
                 ops |-> SetToSeq({[op |-> p[2], path |-> p[3]] : p \in PathsOf(target)})]))
=============================================================================
