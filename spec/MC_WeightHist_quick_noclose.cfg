SPECIFICATION Spec
CONSTANTS
  DEC = 100
  U128MAX = 1000000
  Users = {"a", "b"}
  MaxEpoch = 3
  Steps = {1, 2}
  MaxW = 3
  MaxOps = 3
  Closes = FALSE
  Claims = TRUE
  CloseOnlyAfterSnapshot = FALSE
  ClaimOnlyWhenSettled = FALSE
  WalkUnstarted = FALSE
  Flows <- FlowsAll
INVARIANTS SharesWithinSnapshot HistoryShape
CHECK_DEADLOCK FALSE
