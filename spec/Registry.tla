------------------------------- MODULE Registry -------------------------------
(* Factories (C19): one child per *unordered* asset set, whatever the order in   *)
(* which assets are given; a removed entry disappears and can be created again;  *)
(* listing with pagination returns every entry exactly once.                     *)
EXTENDS Sequences, FiniteSets, TLC, Naturals

\* the registry state is the set of live asset sets (a set of sets of asset names)
SeqToSet(sq) == {sq[i] : i \in 1 .. Len(sq)}

\* perm : the sequence of assets as given in the message (a permutation of the set)
CreateChecks(live, perm) ==
  LET S == SeqToSet(perm) IN
  << <<"C19.create.at-most-one-per-unordered-set", S \notin live>>,
     <<"C19.create.distinct-assets", Cardinality(S) = Len(perm)>> >>
CreateNext(live, perm) == live \cup {SeqToSet(perm)}
RemoveChecks(live, perm) == << <<"C19.remove.only-live-entries", SeqToSet(perm) \in live>> >>
RemoveNext(live, perm) == live \ {SeqToSet(perm)}
=============================================================================
