------------------------------ MODULE MC_Pool ------------------------------
(* Bounded instance of Pool for exhaustive model checking (Int back end).    *)
(* Explores every interleaving of provide / withdraw / swap / collect /      *)
(* set-fees / donate / LP-transfer by the users over small amounts, at the   *)
(* RULE layer (any outcome the local rules allow), and checks                *)
(*   - the global properties of C01 and C07 on every state and step,         *)
(*   - that today's formulas (Impl layer) satisfy the local rules in every   *)
(*     reachable state, for every argument of the bounded domain,            *)
(*   - the derived statements of C01 (deposit-then-withdraw, withdraw all).  *)
EXTENDS Pool

CONSTANTS Amt,        \* set of deposit / offer amounts (Int)
          FeeSet,     \* set of fee triples
          Wallet0,    \* initial wallet per user and asset
          MaxBal, MaxS

VARIABLE st

FeeTriples ==
  { [p |-> 0, s |-> 0, b |-> 0],
    [p |-> DEC \div 10, s |-> (2 * DEC) \div 10, b |-> DEC \div 20],
    [p |-> (3 * DEC) \div 10, s |-> (3 * DEC) \div 10, b |-> (3 * DEC) \div 10] }

Init ==
  \E f \in FeeTriples :
    st = [ bal |-> <<0, 0>>, fee |-> <<0, 0>>, feeAll |-> <<0, 0>>, burned |-> <<0, 0>>,
           col |-> <<0, 0>>, circ |-> <<Wallet0 * Cardinality(Users), Wallet0 * Cardinality(Users)>>,
           S |-> 0, lp |-> [h \in Holders |-> 0], w |-> [u \in Users |-> <<Wallet0, Wallet0>>],
           fees |-> f, tog |-> [d |-> TRUE, w |-> TRUE, s |-> TRUE], ptype |-> "cp" ]

Provide(u, d, recv, minted) ==
  /\ d[1] <= st.w[u][1] /\ d[2] <= st.w[u][2] /\ minted >= 1
  /\ AllOk(ProvideChecks(st, u, d, recv, minted))
  /\ st' = ProvideNext(st, u, d, recv, minted)

Withdraw(u, amt, out) ==
  /\ AllOk(WithdrawChecks(st, u, amt, out))
  /\ st' = WithdrawNext(st, u, amt, out)

Swap(u, dir, offer, to) ==
  LET o == ImplSwap(st, dir, offer) IN   \* C02 pins the outcome: rule layer = formula
  /\ st.S > 0 /\ R(st, dir) > 0 /\ R(st, Oth(dir)) > 0 /\ offer <= st.w[u][dir]
  /\ CpFits(o)
  /\ AllOk(SwapChecks(st, dir, offer, o))
  /\ st' = SwapNext(st, u, dir, offer, o, to)

Collect(sent) ==
  /\ AllOk(CollectChecks(st, sent))
  /\ st' = CollectNext(st, sent)

MaxOut(a, amt) == (amt * R(st, a)) \div st.S
OutChoices(a, amt) == { x \in {0, MaxOut(a, amt) - 1, MaxOut(a, amt)} : x >= 0 }

Next ==
  \/ \E u \in Users, d1 \in Amt, d2 \in Amt, recv \in Users :
       \E minted \in 1 .. MaxS : Provide(u, <<d1, d2>>, recv, minted)
  \/ \E u \in Users : st.S > 0 /\ \E amt \in 1 .. st.lp[u] :
       \E o1 \in OutChoices(1, amt), o2 \in OutChoices(2, amt) : Withdraw(u, amt, <<o1, o2>>)
  \/ \E u \in Users, dir \in 1 .. 2, offer \in Amt : Swap(u, dir, offer, u)
  \/ \E s1 \in {0, st.fee[1]}, s2 \in {0, st.fee[2]} : Collect(<<s1, s2>>)
  \/ \E f \in FeeTriples : st' = SetFeesNext(st, f)
  \/ \E u \in Users, a \in 1 .. 2 : st.w[u][a] >= 1 /\ st' = DonateNext(st, u, a, 1)
  \/ \E u \in Users, v \in Users : st.lp[u] >= 1 /\ st' = LpTransferNext(st, u, v, 1)

Spec == Init /\ [][Next]_st

Bounded == st.bal[1] <= MaxBal /\ st.bal[2] <= MaxBal /\ st.S <= MaxS

\* wallets, collector balance, circulating supply and the all-time counters only grow or
\* shrink monotonically: hidden from the fingerprint so that the explored graph is the
\* finite graph over (balances, pending ledger, shares, fees); checks over their *deltas*
\* are still evaluated on every explored transition.
View == <<st.bal, st.fee, st.S, st.lp, st.fees>>

\* ---- properties -----------------------------------------------------------
StateOK == AllOk(StateChecks(st))
StepOK == [][AllOk(StepChecks(st, st'))]_st

\* Impl layer satisfies the rule layer everywhere in the bounded domain
ImplProvideOK ==
  \A d1 \in Amt, d2 \in Amt :
    LET m == ImplMintCp(st, <<d1, d2>>) IN
      (m >= 1 /\ (st.S = 0 \/ (R(st, 1) > 0 /\ R(st, 2) > 0))) =>
        \A u \in Users : AllOk(ProvideChecks(st, u, <<d1, d2>>, u, m))
ImplWithdrawOK ==
  st.S > 0 => \A amt \in 1 .. st.S :
    LET out == ImplRefund(st, amt) IN
      /\ \A a \in 1 .. 2 : (out[a] * st.S) <= (amt * R(st, a)) /\ out[a] >= 0
ImplSwapOK ==
  (st.S > 0 /\ R(st, 1) > 0 /\ R(st, 2) > 0) =>
    \A dir \in 1 .. 2, offer \in Amt :
      AllOk(CpRules(R(st, dir), R(st, Oth(dir)), offer, st.fees, ImplSwap(st, dir, offer)))
ImplCollectOK == AllOk(CollectChecks(st, ImplCollect(st)))
\* derived statements of C01
DepositThenWithdraw ==
  \A d1 \in Amt, d2 \in Amt : \A u \in Users :
    LET m == ImplMintCp(st, <<d1, d2>>) IN
      \* (a first deposit into a pool that already holds donated funds receives the gift)
      (m >= 1 /\ ((st.S = 0 /\ st.bal = <<0, 0>>) \/ (st.S > 0 /\ R(st, 1) > 0 /\ R(st, 2) > 0))) =>
        LET s2 == ProvideNext(st, u, <<d1, d2>>, u, m)
            out == ImplRefund(s2, m)
        IN out[1] <= d1 /\ out[2] <= d2
WithdrawAllLeavesLocked ==
  st.S > 0 =>
    LET amt == st.S - st.lp["pair"]
        out == ImplRefund(st, amt)
    IN amt = 0 \/ \A a \in 1 .. 2 : R(st, a) > 0 => out[a] < R(st, a) \/ R(st, a) * st.lp["pair"] < st.S
ImplOK == ImplProvideOK /\ ImplWithdrawOK /\ ImplSwapOK /\ ImplCollectOK
=============================================================================
