----------------------------- MODULE MC_Pipeline -----------------------------
(* Bounded model of one NewEpoch transaction: every fee state of two pools and  *)
(* two vaults (zero / below / above the collection threshold), routes present,  *)
(* absent or failing at execution, take rate off / zero / tiny / 10 % / 99 %,   *)
(* a registered vault whose fee collection fails.                               *)
(* The transaction is computed the way the code does it (collect, aggregate,    *)
(* take rate, transfer) and the property's clauses are checked on the result;   *)
(* every configuration is emitted as a schedule.                                *)
EXTENDS Pipeline, Json

VARIABLES cfg, done

Pend == {0, COLLECT_MIN, COLLECT_MIN + 5}        \* zero, at (not collectable), above the threshold
RouteStates == {"route", "noroute", "fails"}
Rates == {0, 1, DEC \div 10, DEC - 1}
Other == "uusdc"

Init == cfg = [k \in {"none"} |-> 0] /\ done = FALSE
Choose ==
  /\ ~done
  /\ \E p1 \in Pend, p2 \in Pend, v1 \in Pend, v2 \in {0, 7}, r \in RouteStates, act \in BOOLEAN, rate \in Rates, pre \in {0, 40} :
       \* broken: a third registered vault whose CollectProtocolFees fails (a fault in the collection step itself)
       \E broken \in (IF v2 = 7 /\ pre = 40 THEN BOOLEAN ELSE {FALSE}) :
       cfg' = [p1 |-> p1, p2 |-> p2, v1 |-> v1, v2 |-> v2, route |-> r, active |-> act, rate |-> rate, pre |-> pre, broken |-> broken]
  /\ done' = TRUE
Next == Choose
Spec == Init /\ [][Next]_<<cfg, done>>

\* pair1 and vault1 owe WHALE (Dist), pair2 and vault2 owe the other asset
Before ==
  [ pending |-> [k \in Kids |-> [a \in Assets |->
                   IF k = "pair1" /\ a = Dist THEN cfg.p1 ELSE IF k = "pair2" /\ a = Other THEN cfg.p2
                   ELSE IF k = "vault1" /\ a = Dist THEN cfg.v1 ELSE IF k = "vault2" /\ a = Other THEN cfg.v2 ELSE 0]],
    alltime |-> [k \in Kids |-> [a \in Assets |-> 100]],
    col |-> [a \in Assets |-> IF a = Dist THEN cfg.pre ELSE 0], dao |-> [a \in Assets |-> 0],
    supply |-> [a \in Assets |-> 100000], dist |-> 0,
    take |-> [active |-> cfg.active, rate |-> cfg.rate, dao_set |-> TRUE], history |-> 0 ]

\* the code's transaction: the route pays 1 WHALE per 2 units of the other asset, charging no new fee
After ==
  LET s == Before
      otherBal == s.col[Other] + CollectedInto(s, Other, Kids)
      swapped == cfg.route = "route" /\ otherBal > COLLECT_MIN
      whale == s.col[Dist] + CollectedInto(s, Dist, Kids) + (IF swapped THEN otherBal \div 2 ELSE 0)
      takeAmt == IF TakeActive(s) THEN (whale * s.take.rate) \div DEC ELSE 0
  IN [s EXCEPT !.pending = [k \in Kids |-> [a \in Assets |-> s.pending[k][a] - Collectable(s, k, a)]],
               !.col = [a \in Assets |-> IF a = Dist THEN 0 ELSE IF a = Other THEN (IF swapped THEN 0 ELSE otherBal) ELSE s.col[a]],
               !.dao = [s.dao EXCEPT ![Dist] = takeAmt], !.history = takeAmt, !.dist = whale - takeAmt,
               \* conservation: what the route paid out came from a pool (outside this observation): model it as supply-neutral
               !.supply = s.supply]
Reverts == \/ cfg.broken
           \/ cfg.route = "fails" /\ Before.col[Other] + CollectedInto(Before, Other, Kids) > COLLECT_MIN

RulesHold == (done /\ ~Reverts) => AllOk(EpochChecks(Before, After, Kids))
Emit == done => PrintT(ToJson([k |-> "SCHED", cfg |-> cfg]))
=============================================================================
