SPECIFICATION Spec
CONSTANTS
  DEC = "1000000000000000000"
  U128MAX = "340282366920938463463374607431768211455"
  MAXAMP = "1000000"
  MAXGRACE = "30"
  MINDUR = "86400000000000"
POSTCONDITION Consumed
CHECK_DEADLOCK FALSE
