---------------------------- MODULE MC_BondedClaims ----------------------------
(* The lair's bonding weights (LairWeight.tla) together with the fee distributor's claims: an epoch stores the     *)
(* global index as it stood when the epoch was created; a claim pays, for every epoch the address has not claimed   *)
(* yet,  floor(epoch total * address weight / global weight),  both weights evaluated at the epoch's start from the   *)
(* address's CURRENT bond record and the epoch's stored global index, and is refused as a whole (InvalidReward) when   *)
(* one epoch has less than that available.  Bonding and unbonding require that nothing is left to claim.              *)
(* Question: is a claim ever refused although everybody only bonded, unbonded and claimed as the contracts allow ?     *)
(*   MC_BondedClaims.cfg          (Rebond = FALSE: an address bonds once per stay)  - no.                              *)
(*   MC_BondedClaims_witness.cfg  (Rebond = TRUE)  - yes: the over-credit of LairWeight's witness makes the shares of  *)
(*   an epoch add up to more than 100 %, and whoever claims last finds less than its share available.                 *)
(* Beyond the listed properties (DESIGN.md).                                                                           *)
EXTENDS LairWeight, Integers, Sequences, FiniteSets, TLC

CONSTANTS Users, Amts, Totals, MaxNow, Rate, Rebond, MaxOps, MaxEpochs

VARIABLES now, bond, glob, eps, last, refused, ops
vars == <<now, bond, glob, eps, last, refused, ops>>

Init == /\ now = 1 /\ bond = [u \in Users |-> NoBond] /\ glob = NoBond /\ eps = <<>>
        /\ last = [u \in Users |-> 0] /\ refused = "" /\ ops = 0
NothingToClaim(u) == IF bond[u].amt = 0 THEN TRUE ELSE last[u] = Len(eps)
Tick == now < MaxNow /\ now' = now + 1 /\ UNCHANGED <<bond, glob, eps, last, refused, ops>>
Bond(u, a) ==
  /\ ops < MaxOps /\ refused = "" /\ NothingToClaim(u) /\ (IF Rebond THEN TRUE ELSE bond[u].amt = 0)
  /\ bond' = [bond EXCEPT ![u] = BondRec(@, a, now, Rate)]
  /\ glob' = BondRec(glob, a, now, Rate)
  \* a first bond (or a bond after everything was unbonded) starts counting from the epochs created afterwards
  /\ last' = [last EXCEPT ![u] = IF bond[u].amt = 0 THEN Len(eps) ELSE @]
  /\ ops' = ops + 1 /\ UNCHANGED <<now, eps, refused>>
Unbond(u, a) ==
  /\ ops < MaxOps /\ refused = "" /\ NothingToClaim(u) /\ 0 < a /\ a <= bond[u].amt
  /\ LET sl == Slash(bond[u], a, now, Rate) IN
       /\ GlobalUnbondOk(glob, sl, now, Rate)
       /\ bond' = [bond EXCEPT ![u] = UnbondRec(@, a, now, Rate)]
       /\ glob' = GlobalUnbondRec(glob, a, sl, now, Rate)
  /\ ops' = ops + 1 /\ UNCHANGED <<now, eps, last, refused>>
NewEpoch(x) ==
  /\ Len(eps) < MaxEpochs /\ refused = "" /\ (IF eps = <<>> THEN TRUE ELSE eps[Len(eps)].start < now)
  /\ eps' = Append(eps, [start |-> now, gi |-> glob, total |-> x, avail |-> x])
  /\ UNCHANGED <<now, bond, glob, last, refused, ops>>

\* one claim: epochs last[u]+1 .. Len(eps), oldest first; acc = [ok, why, eps]
RECURSIVE Walk(_, _, _)
Walk(u, i, acc) ==
  IF i > Len(eps) \/ ~acc.ok THEN acc
  ELSE LET e == acc.eps[i]  b == bond[u] IN
       IF e.start < b.ts THEN [acc EXCEPT !.ok = FALSE, !.why = "time-factor"]
       ELSE LET w == GetWeight(e.start, b.w, b.amt, Rate, b.ts)
                g == GetWeight(e.start, e.gi.w, e.gi.amt, Rate, e.gi.ts)
            IN IF g = 0 THEN [acc EXCEPT !.ok = FALSE, !.why = "no-global-weight"]
               ELSE LET reward == MulFloor(e.total, FromRatio(w, g)) IN
                    IF reward > e.avail THEN [acc EXCEPT !.ok = FALSE, !.why = "invalid-reward"]
                    ELSE Walk(u, i + 1, [acc EXCEPT !.eps[i].avail = @ - reward])
Claim(u) ==
  /\ refused = "" /\ bond[u].amt > 0 /\ last[u] < Len(eps)
  /\ LET acc == Walk(u, last[u] + 1, [ok |-> TRUE, why |-> "", eps |-> eps]) IN
       IF acc.ok THEN eps' = acc.eps /\ last' = [last EXCEPT ![u] = Len(eps)] /\ UNCHANGED refused
       ELSE refused' = acc.why /\ UNCHANGED <<eps, last>>
  /\ UNCHANGED <<now, bond, glob, ops>>
Next == Tick \/ (\E u \in Users : Claim(u) \/ \E a \in Amts : Bond(u, a) \/ Unbond(u, a)) \/ \E x \in Totals : NewEpoch(x)
Spec == Init /\ [][Next]_vars

NeverRefused == refused = ""
AvailWithinTotal == \A i \in DOMAIN eps : 0 <= eps[i].avail /\ eps[i].avail <= eps[i].total
=============================================================================
