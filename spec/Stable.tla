-------------------------------- MODULE Stable --------------------------------
(* Stableswap curve, defined independently of the contracts' Newton iterations:  *)
(*   Ann * sum(x) + D = Ann * D + D^(n+1) / (n^n * prod(x)),   Ann = amp * n     *)
(* (the parametrisation both pools use).  Multiplied out it is a polynomial that *)
(* is increasing in D and, for fixed D and the other reserves, convex in y with  *)
(* exactly one positive root; both are located by bisection on exact integers.   *)
EXTENDS Dec, Sequences, TLC

\* ---- n = 2 -------------------------------------------------------------------
P2(x, y, D, ann) ==
  (((D ** D) ** D) ++ ((((N(4) ** x) ** y) ** (ann -- One)) ** D)) -- ((((N(4) ** x) ** y) ** ann) ** (x ++ y))
RECURSIVE D2Rec(_, _, _, _, _)
\* invariant: P2(lo) <= 0 < P2(hi + 1)  ->  the largest D with P2(D) <= 0
D2Rec(x, y, ann, lo, hi) ==
  IF lo = hi THEN lo
  ELSE LET mid == ((lo ++ hi) ++ One) // Two IN
       IF P2(x, y, mid, ann) \preceq Zero THEN D2Rec(x, y, ann, mid, hi) ELSE D2Rec(x, y, ann, lo, mid -- One)
Dstar2(x, y, amp) == IF x = Zero \/ y = Zero THEN Zero ELSE D2Rec(x, y, amp ** Two, Zero, x ++ y)

H2(xp, y, D, ann) ==
  ((((N(4) ** xp) ** ann) ** y) ** y) ++ (((N(4) ** xp) ** y) ** ((ann ** xp) -- ((ann -- One) ** D))) -- ((D ** D) ** D)
RECURSIVE Y2Rec(_, _, _, _, _), Y2Up(_, _, _, _)
\* the least y with H2(y) >= 0
Y2Rec(xp, D, ann, lo, hi) ==
  IF lo = hi THEN lo
  ELSE LET mid == (lo ++ hi) // Two IN
       IF Zero \preceq H2(xp, mid, D, ann) THEN Y2Rec(xp, D, ann, lo, mid) ELSE Y2Rec(xp, D, ann, mid ++ One, hi)
Y2Up(xp, D, ann, hi) == IF Zero \preceq H2(xp, hi, D, ann) THEN hi ELSE Y2Up(xp, D, ann, hi ** Two)
Ystar2(xp, D, amp) == LET ann == amp ** Two IN Y2Rec(xp, D, ann, Zero, Y2Up(xp, D, ann, NMax(D, One)))

\* ---- n = 3 -------------------------------------------------------------------
P3(x, y, z, D, ann) ==
  LET q == ((N(27) ** x) ** y) ** z IN
  ((((D ** D) ** D) ** D) ++ ((q ** (ann -- One)) ** D)) -- ((q ** ann) ** ((x ++ y) ++ z))
RECURSIVE D3Rec(_, _, _, _, _, _)
D3Rec(x, y, z, ann, lo, hi) ==
  IF lo = hi THEN lo
  ELSE LET mid == ((lo ++ hi) ++ One) // Two IN
       IF P3(x, y, z, mid, ann) \preceq Zero THEN D3Rec(x, y, z, ann, mid, hi) ELSE D3Rec(x, y, z, ann, lo, mid -- One)
Dstar3(x, y, z, amp) ==
  IF x = Zero \/ y = Zero \/ z = Zero THEN Zero ELSE D3Rec(x, y, z, amp ** N(3), Zero, (x ++ y) ++ z)

H3(xp, z, y, D, ann) ==
  LET q == (N(27) ** xp) ** z IN
  (((q ** ann) ** y) ** y) ++ ((q ** y) ** ((ann ** (xp ++ z)) -- ((ann -- One) ** D))) -- (((D ** D) ** D) ** D)
RECURSIVE Y3Rec(_, _, _, _, _, _), Y3Up(_, _, _, _, _)
Y3Rec(xp, z, D, ann, lo, hi) ==
  IF lo = hi THEN lo
  ELSE LET mid == (lo ++ hi) // Two IN
       IF Zero \preceq H3(xp, z, mid, D, ann) THEN Y3Rec(xp, z, D, ann, lo, mid) ELSE Y3Rec(xp, z, D, ann, mid ++ One, hi)
Y3Up(xp, z, D, ann, hi) == IF Zero \preceq H3(xp, z, hi, D, ann) THEN hi ELSE Y3Up(xp, z, D, ann, hi ** Two)
Ystar3(xp, z, D, amp) == LET ann == amp ** N(3) IN Y3Rec(xp, z, D, ann, Zero, Y3Up(xp, z, D, ann, NMax(D, One)))

\* ---- amplification ramp (curve.rs::compute_amp_factor) ------------------------------------------
AmpAt(init, target, now, start, stop) ==
  IF stop \preceq now THEN target
  ELSE IF init \preceq target THEN init ++ (((target -- init) ** (now -- start)) // (stop -- start))
       ELSE init -- (((init -- target) ** (now -- start)) // (stop -- start))
\* the statement's acceptance rule for a new ramp
RampAllowed(cur, fa, fb, now, minBlocks, minAmp, maxAmp, maxChange) ==
  /\ minAmp \preceq fa /\ fa \preceq maxAmp
  /\ fa \preceq (cur ** maxChange) /\ cur \preceq (fa ** maxChange)
  /\ (now ++ minBlocks) \preceq fb
\* ---- shared clause machinery of the two-asset pool (pure function and contract level) ---------------------------
Norm(x, dec) == x ** Pow(N(10), 18 - dec)
GrossOf(o) == ((o.ret ++ o.sf) ++ o.pf) ++ o.bf
\* rounding dust, in normalised units: the code truncates D and the offer side to the ask precision and solves y to one
\* ask base unit; each is worth at most one ask unit times the local slope of the curve (how much y moves when x moves by
\* one ask unit), which is measured on the independent curve itself
Dust2(X1, D, amp, da) ==
  LET U == Pow(N(10), 18 - da)
      slope == (Ystar2(NMax(X1 -- U, One), D, amp) -- Ystar2(X1, D, amp)) // U
  IN (N(4) ++ (N(4) ** slope)) ** U
\* A deposit must not mint more than its proportional increase of the invariant: minted / S <= (D1 - D0) / D0 on the
\* independently solved D.  Dstar is the floor of the real root, so "minted * D0 > S * (D1 + 1 - D0)" proves a real
\* excess (literal clause).  The code's own D0 / D1 come from Newton iterations that stop when two iterates differ by at
\* most one unit; the distance to the root that is left grows with the square root of the lopsidedness of the pool the
\* iteration runs on (measured over 2e5 calls, ratios up to 1e22, deposits up to 2^100: at most a tenth of
\* 16 + sqrt(max reserve / min reserve) units of D).  The dust clause gives the code's D0 that much room (e0, on the
\* pool before the deposit) and its D1 that much (e1, on the pool after it) and must hold.
\* deposit slippage of the stableswap pools (C15), as documented in assert_slippage_tolerance: the deposit's tokens per
\* minted LP must not be below the pool's tokens per LP by more than the tolerance t (decimal atomics); every
\* Decimal256 operation floors, which is worth at most two atomics
StSlipBound(poolTotal, S, depTotal, minted, t) ==
  ((poolTotal ** (DEC -- t)) ** minted) \preceq (((depTotal ** S) ** DEC) ++ ((Two ** S) ** minted))
Lopsided(hi, lo) == Sqrt(hi // NMax(One, lo))
MintChecks(prefix, suffix, m, S, D0, D1, e0, e1) ==
  LET lit == (m ** D0) \preceq (S ** ((D1 ++ One) -- D0))
  IN << <<prefix \o ".deposit.mint<=proportional-increase-of-the-invariant" \o suffix, lit>>,
        <<prefix \o ".deposit.mint-excess-within-rounding-dust" \o suffix,
           \/ lit \/ D0 \preceq e0
           \/ ((m -- One) ** (D0 -- e0)) \preceq (S ** (((D1 -- D0) ++ e0) ++ e1))>> >>
=============================================================================
