---------------------------- MODULE Trace_Config ----------------------------
(* Trace validation of configuration writes (C18) against Config.tla.         *)
EXTENDS Config, Json, IOUtils

Rec == ndJsonDeserialize(IOEnv.TRACE)
VARIABLES l, prev
vars == <<l, prev>>

\* was the written value inside its documented range (given the previous grace period) ?
InRange(ev) ==
  LET a == ev.args IN
  CASE a.family = "fee" -> FeeOK(a.fee, a.third)
    [] a.family = "amp" -> AmpOK(a.v)
    [] a.family = "grace" -> GraceOK(a.v)
    [] a.family = "grace_update" -> GraceOK(a.v) /\ prev.grace \preceq a.v
    [] a.family = "dur" -> DurOK(a.v)
    [] a.family = "growth" -> GrowthOK(a.v)
    [] a.family = "take" -> TakeOK(a.v)
    [] a.family = "assets" -> a.v \preceq Two
    [] OTHER -> FALSE

EvChecks(ev) ==
  IF ev.ev = "reset" THEN ConfigChecks(ev.obs)
  ELSE ConfigChecks(ev.obs) \o StepChecks(prev, ev.obs)
       \o << <<"C18.rejected-write-changes-nothing", ev.res # "ok" => ev.dpre = ev.dpost>>,
             <<"C18.out-of-range-write-rejected", ~InRange(ev) => ev.res # "ok">>,
             <<"drift.in-range-write-rejected", InRange(ev) => ev.res = "ok">> >>

Report(ev, bad) ==
  IF bad = {} THEN TRUE
  ELSE PrintT(ToJson([k |-> "BAD", run |-> ev.run, step |-> IF ev.ev = "reset" THEN -1 ELSE ev.step,
                      line |-> l, ev |-> ev.ev, bad |-> bad]))
Init == l = 1 /\ prev = [grace |-> Zero]
Next == l <= Len(Rec) /\ Report(Rec[l], Failed(EvChecks(Rec[l]))) /\ prev' = Rec[l].obs /\ l' = l + 1
Spec == Init /\ [][Next]_vars
Consumed ==
  /\ PrintT(ToJson([k |-> "CONSUMED", consumed |-> TLCGet("stats").diameter - 1, lines |-> Len(Rec)]))
  /\ TLCGet("stats").diameter - 1 = Len(Rec)
=============================================================================
