SPECIFICATION Spec
CONSTANTS
  DEC = "1000000000000000000"
  U128MAX = "340282366920938463463374607431768211455"
  Users = {"user1", "user2", "user3"}
  Denoms = {"uwhale", "ubtc", "foreign"}
  PageLimit = 30
  NS = "1000000000"
POSTCONDITION Consumed
CHECK_DEADLOCK FALSE
