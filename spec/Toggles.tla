------------------------------- MODULE Toggles -------------------------------
(* Pause switches (C17): per pool / vault three flags; an operation has several *)
(* entry paths.  flag off => every path of that operation is rejected and       *)
(* nothing changes; flag on (with liquidity) => every path works; other         *)
(* operations are unaffected; re-enabling restores the behaviour.               *)
EXTENDS Sequences, FiniteSets, TLC

Targets == {"pair1", "pair2", "trio", "vault"}
\* <<target, operation, path>>; the operation names the flag that guards it
OpPaths ==
  { <<"pair1", "deposit", "direct">>, <<"pair1", "deposit", "helper">>, <<"pair1", "withdraw", "hook">>,
    <<"pair1", "swap", "direct">>, <<"pair1", "swap", "router1">>, <<"pair1", "swap", "router2">>,
    <<"pair2", "deposit", "direct">>, <<"pair2", "withdraw", "hook">>, <<"pair2", "swap", "direct">>,
    <<"pair2", "swap", "hook">>, <<"pair2", "swap", "router2">>, <<"pair2", "swap", "routerhook">>,
    <<"trio", "deposit", "direct">>, <<"trio", "withdraw", "hook">>, <<"trio", "swap", "direct">>,
    <<"vault", "deposit", "direct">>, <<"vault", "withdraw", "hook">>, <<"vault", "loan", "direct">>,
    <<"vault", "loan", "router">> }
PathsOf(t) == { p \in OpPaths : p[1] = t }
Flags == [deposit : BOOLEAN, withdraw : BOOLEAN, third : BOOLEAN]   \* third = swaps (pools) / flash loans (vault)
Guard(op) == IF op \in {"swap", "loan"} THEN "third" ELSE op

\* the rule judged on every recorded operation
OpChecks(flags, op, liquidity, res, unchanged) ==
  << <<"C17.disabled-operation-rejected", ~flags[Guard(op)] => res # "ok">>,
     <<"C17.disabled-operation-changes-nothing", ~flags[Guard(op)] => unchanged>>,
     <<"C17.enabled-operation-works", (flags[Guard(op)] /\ liquidity) => res = "ok">>,
     <<"C17.rejected-operation-changes-nothing", res # "ok" => unchanged>> >>
=============================================================================
