------------------------------ MODULE MC_Router ------------------------------
(* Bounded model of a router transaction, message by message (Int back end):   *)
(* sender, receiver and router accounts over a chain of constant-product       *)
(* pools; every offer, minimum, receiver choice, pre-existing balance and      *)
(* stray router balance within the bounds.  The finished transaction is        *)
(* judged by Router!RouteChecks / SimChecks, the operators that judge the      *)
(* real router.  MinFrom = "sender" is the deviation in which the balance      *)
(* recorded for the minimum is the sender's: the model then violates           *)
(* ClausesHold (MC_Router_witness.cfg, expected to fail).                      *)
EXTENDS Router, Naturals, FiniteSets

CONSTANTS MaxOffer, MinFrom
Acct == {"snd", "rcv", "router"}
Asset == 1 .. 3
VARIABLES bal, pools, pc, tx, bad
vars == <<bal, pools, pc, tx, bad>>

Out(pool, x) == (pool[2] * x) \div (pool[1] + x)

Init ==
  /\ bal \in { b \in [Acct -> [Asset -> {0, 1, 9}]] :
                 /\ b["snd"][1] = 9 /\ b["router"][1] = 0
                 /\ b["snd"][2] = 0 /\ b["rcv"][1] = 0 /\ b["rcv"][2] \in {0, 9} }
  /\ pools = <<(<<20, 30>>), (<<30, 15>>)>>
  /\ pc = "idle" /\ tx = [hops |-> 0] /\ bad = {}

Begin ==
  /\ pc = "idle"
  /\ \E offer \in 1 .. MaxOffer, hops \in 1 .. 2, to \in {"snd", "rcv"}, m \in -1 .. 12 :
       LET fin == hops + 1
           min == m IN
       /\ tx' = [hops |-> hops, to |-> to, min |-> min, offer |-> offer, snapBal |-> bal, snapPools |-> pools,
                 prev |-> IF MinFrom = "sender" THEN bal["snd"][fin] ELSE bal[to][fin], k |-> 1]
       /\ bal' = [bal EXCEPT !["snd"][1] = @ - offer, !["router"][1] = @ + offer]
       /\ pc' = "hop" /\ UNCHANGED <<pools, bad>>
Hop ==
  /\ pc = "hop"
  /\ LET k == tx.k
         x == bal["router"][k]
         out == Out(pools[k], x)
         last == k = tx.hops
         who == IF last THEN tx.to ELSE "router"
     IN /\ pools' = [pools EXCEPT ![k] = <<@[1] + x, @[2] - out>>]
        /\ bal' = [[bal EXCEPT !["router"][k] = 0] EXCEPT ![who][k + 1] = @ + out]
        /\ tx' = [tx EXCEPT !.k = k + 1]
        /\ pc' = IF last THEN "assert" ELSE "hop"
        /\ UNCHANGED bad
SimAmount == LET a == Out(tx.snapPools[1], tx.offer) IN IF tx.hops = 1 THEN a ELSE Out(tx.snapPools[2], a)
AssertMin ==
  /\ pc = "assert"
  /\ LET fin == tx.hops + 1
         now == bal[tx.to][fin]
         pass == tx.min = -1 \/ (now >= tx.prev /\ now - tx.prev >= tx.min)
         would == now - tx.snapBal[tx.to][fin]
         stray == \E a \in Asset : tx.snapBal["router"][a] > 0
     IN /\ bal' = IF pass THEN bal ELSE tx.snapBal
        /\ pools' = IF pass THEN pools ELSE tx.snapPools
        /\ bad' = Failed(RouteChecks(tx.min # -1, tx.min, pass, IF pass THEN would ELSE 0, ~pass, would, TRUE)
                         \o SimChecks(TRUE, SimAmount, pass, IF pass THEN would ELSE 0, ~pass, would, stray))
        /\ pc' = "done" /\ UNCHANGED tx
Next == Begin \/ Hop \/ AssertMin
Spec == Init /\ [][Next]_vars

ClausesHold == { n \in bad : n # "C14.router.simulation=receiver-gain(router-holding-stray-funds)" } = {}
\* the stray-funds deviation of the simulation clause is reachable in the model too (expected to FAIL in the witness cfg)
WitnessStray == "C14.router.simulation=receiver-gain(router-holding-stray-funds)" \notin bad
=============================================================================
