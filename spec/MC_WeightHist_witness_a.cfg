SPECIFICATION Spec
CONSTANTS
  DEC = 100
  U128MAX = 1000000
  Users = {"a", "b"}
  MaxEpoch = 4
  Steps = {1, 2}
  MaxW = 3
  MaxOps = 4
  Closes = TRUE
  Claims = FALSE
  CloseOnlyAfterSnapshot = FALSE
  ClaimOnlyWhenSettled = FALSE
  WalkUnstarted = FALSE
  Flows <- FlowsRun
INVARIANTS SharesWithinSnapshot HistoryShape
CHECK_DEADLOCK FALSE
