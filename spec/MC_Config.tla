----------------------------- MODULE MC_Config -----------------------------
(* Bounded model of the configuration write paths: values from boundary sets  *)
(* (0, bound-1, bound, bound+1, 2*bound; fee triples whose individual shares   *)
(* are valid but whose sum crosses 1), sequences of up to SchedDepth writes.   *)
(* The design accepts a write iff the value is in range; ConfigOK is then an   *)
(* invariant.  Every behaviour is emitted as a schedule of write classes.      *)
EXTENDS Config, Json

CONSTANTS SchedDepth

VARIABLES cfg, hist

Shares == {0, DEC \div 3, (DEC \div 3) + 1, DEC \div 2, DEC - 1, DEC, DEC + 1}
\* a reduced grid of fee triples: boundary shares, and sums just below / at / above one
Triples == { t \in [p : Shares, x : Shares, b : {0, DEC \div 3, (DEC \div 3) + 1}] :
               t.p + t.x + t.b >= DEC - 2 \/ t.p = 0 \/ t.x >= DEC - 1 }
Graces == {0, 1, 2, 3, MAXGRACE, MAXGRACE + 1}
Durs == {MINDUR - 1, MINDUR, MINDUR + 1}
Growths == {0, DEC - 1, DEC, DEC + 1}
Takes == {0, DEC - 1, DEC, DEC + 1}
Amps == {0, 1, MAXAMP, MAXAMP + 1}
\* (13, 23: three entries of which one repeats another - literally, or in another letter case: still three entries)
AssetCounts == {0, 1, 2, 3, 13, 23}
FeePaths == {"pair.factory_update", "pair.direct_update", "pair.factory_create", "pair.instantiate",
             "trio.factory_update", "trio.direct_update", "trio.factory_create", "trio.instantiate",
             "vault.factory_update", "vault.direct_update", "vault.factory_create", "vault.instantiate",
             \* the same over a token-factory denom (factory/<creator>/<sub>), whose instantiation takes a branch of its own
             "vault.factory_create_tf", "vault.instantiate_tf"}

\* the collector's take rate travels in a message that can carry other fields along: the on/off switch (unset, on, off)
\* and the address the take goes to; whatever comes along, the rate is accepted iff it is in range
TakePaths == {"collector.update_take", "collector.update_take+on", "collector.update_take+off", "collector.update_take+dao"}

Init ==
  /\ cfg = [pairOK |-> TRUE, trioOK |-> TRUE, vaultOK |-> TRUE, amp |-> 100, grace |-> 3, dur |-> MINDUR,
            growth |-> 1, assets |-> 2, take |-> 0]
  /\ hist = <<>>
Rec(w) == hist' = Append(hist, w)
PF(t) == [p |-> t.p, s |-> t.x, b |-> t.b]
VFe(t) == [p |-> t.p, f |-> t.x, b |-> t.b]

WriteFee(path, t) ==
  /\ Rec([w |-> path, p |-> t.p, x |-> t.x, b |-> t.b, v |-> 0])
  /\ cfg' = cfg          \* an in-range triple replaces an in-range triple; an out-of-range one is refused
\* the grace period travels in a message that can carry a new epoch duration along (twice / thirty times as long): whatever
\* comes along, the grace period is accepted iff it is in range and not below the one in force
GracePaths == {"distributor.update", "distributor.update+2x", "distributor.update+30x"}
Stretch(path) == IF path = "distributor.update+2x" THEN 2 ELSE IF path = "distributor.update+30x" THEN 30 ELSE 1
WriteGrace(path, g) ==
  /\ Rec([w |-> path, p |-> 0, x |-> 0, b |-> 0, v |-> g])
  /\ cfg' = IF path \in GracePaths /\ GraceOK(g) /\ g >= cfg.grace THEN [cfg EXCEPT !.grace = g, !.dur = @ * Stretch(path)] ELSE cfg
WriteScalar(path, v) ==
  /\ Rec([w |-> path, p |-> 0, x |-> 0, b |-> 0, v |-> v])
  /\ cfg' = CASE path = "distributor.update_duration" /\ DurOK(v) -> [cfg EXCEPT !.dur = v]
              [] path = "lair.update_growth" /\ GrowthOK(v) -> [cfg EXCEPT !.growth = v]
              [] path \in TakePaths /\ TakeOK(v) -> [cfg EXCEPT !.take = v]
              [] OTHER -> cfg

\* beyond depth 1 only sequences of grace updates matter (the one parameter with a history rule)
First == hist = <<>>
GraceSeq == Len(hist) < SchedDepth /\ \A i \in 1 .. Len(hist) : hist[i].w \in GracePaths
\* at most one message of a sequence carries a duration along
Plain == \A i \in 1 .. Len(hist) : hist[i].w = "distributor.update"
Next ==
  \/ First /\ \E path \in FeePaths, t \in Triples : WriteFee(path, t)
  \/ GraceSeq /\ \E g \in Graces : WriteGrace("distributor.update", g)
  \/ GraceSeq /\ Plain /\ \E g \in Graces, path \in GracePaths \ {"distributor.update"} : WriteGrace(path, g)
  \/ First /\ \E g \in Graces : WriteGrace("distributor.instantiate", g)
  \/ First /\ \E d \in Durs : WriteScalar("distributor.update_duration", d) \/ WriteScalar("distributor.instantiate_duration", d)
  \/ First /\ \E r \in Growths : WriteScalar("lair.update_growth", r) \/ WriteScalar("lair.instantiate_growth", r)
  \/ First /\ \E n \in AssetCounts : WriteScalar("lair.instantiate_assets", n)
  \/ First /\ \E t \in Takes, path \in TakePaths : WriteScalar(path, t)
  \/ First /\ \E a \in Amps : WriteScalar("trio.factory_create_amp", a) \/ WriteScalar("trio.instantiate_amp", a)
Spec == Init /\ [][Next]_<<cfg, hist>>
Depth == Len(hist) <= SchedDepth

ConfigOK == /\ GraceOK(cfg.grace) /\ DurOK(cfg.dur) /\ GrowthOK(cfg.growth) /\ TakeOK(cfg.take) /\ AmpOK(cfg.amp)
            /\ cfg.assets <= 2 /\ cfg.pairOK /\ cfg.trioOK /\ cfg.vaultOK
GraceMonotone == [][cfg'.grace >= cfg.grace]_<<cfg, hist>>
\* only sequences whose writes touch the same parameter family matter beyond depth 1 (grace)
Emit == (Len(hist) >= 1 /\ (Len(hist) = SchedDepth \/ hist[1].w # "distributor.update")) =>
          PrintT(ToJson([k |-> "SCHED", ops |-> hist]))
=============================================================================
