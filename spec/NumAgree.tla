----------------------------- MODULE NumAgree -----------------------------
(* Self-test of the big-number back end: run with `bin/tlcw big`; every     *)
(* operator of Num must agree with TLC's native integers on -30..90.        *)
EXTENDS Num, TLC
R == -30 .. 90
FloorSqrt(a) == CHOOSE r \in 0 .. 10 : r * r <= a /\ (r + 1) * (r + 1) > a
Agree ==
  /\ \A a, b \in R :
       /\ (N(a) ++ N(b)) = N(a + b)
       /\ (N(a) -- N(b)) = N(a - b)
       /\ (N(a) ** N(b)) = N(a * b)
       /\ (b # 0 => (N(a) // N(b)) = N(a \div b))
       /\ (b > 0 => (N(a) %% N(b)) = N(a % b))
       /\ (N(a) \preceq N(b)) = (a <= b)
       /\ (N(a) \prec N(b)) = (a < b)
       /\ NMin(N(a), N(b)) = N(IF a <= b THEN a ELSE b)
       /\ NMax(N(a), N(b)) = N(IF a >= b THEN a ELSE b)
  /\ \A a \in 0 .. 90 : Sqrt(N(a)) = N(FloorSqrt(a)) /\ ToInt(N(a)) = a
  /\ \A a \in 1 .. 6, k \in 0 .. 5 : Pow(N(a), k) = N(a ^ k)
  /\ (N(2) ** Pow(N(10), 40)) // Pow(N(10), 22) = "2000000000000000000"
  /\ Pow(N(2), 128) = "340282366920938463463374607431768211456"
  /\ Bits(Pow(N(2), 128)) = 129 /\ Bits(N(0)) = 0
  /\ IsNum("12") /\ ~IsNum("012") /\ ~IsNum("x")
ASSUME Agree
VARIABLE x
Init == x = 0
Next == UNCHANGED x
===========================================================================
