------------------------------- MODULE Emission -------------------------------
(* How an incentive flow hands out its tokens epoch by epoch (claim.rs, get_rewards.rs, expand_flow.rs).   *)
(* A flow f carries                                                                                          *)
(*   base, start, end : what it was opened with                                                              *)
(*   hist : Seq([e, amt, end])   expansion history, ascending in e: from epoch e on the flow holds amt       *)
(*                                tokens and ends at end                                                      *)
(*   em   : Seq([e, x])           emission ledger, ascending in e: x tokens emitted up to and including e     *)
(* The emission of epoch e is what is left of the flow at e spread evenly over the epochs left:              *)
(*   emission(e) = floor( (amount at e - emitted up to e-1) / (end at e - e) )                               *)
(* The ledger entry of an epoch is written by the first claim that walks over it and never rewritten; a      *)
(* missing entry for e-1 counts as zero.                                                                      *)
(* Used by the trace validator (Incentive.tla, on what the real contract reports) and by the bounded model   *)
(* MC_Emission.tla (on its own state).                                                                        *)
EXTENDS Dec, Sequences

AtEpoch(f, e) == LET c == SelectSeq(f.hist, LAMBDA h : h.e <= e) IN
                 IF c = <<>> THEN [amt |-> f.base, end |-> f.end] ELSE [amt |-> c[Len(c)].amt, end |-> c[Len(c)].end]
FinalEnd(f) == IF f.hist = <<>> THEN f.end ELSE f.hist[Len(f.hist)].end
FinalAmount(f) == IF f.hist = <<>> THEN f.base ELSE f.hist[Len(f.hist)].amt
HasLedger(f, e) == \E i \in DOMAIN f.em : f.em[i].e = e
EmittedUpTo(f, e) == LET c == SelectSeq(f.em, LAMBDA h : h.e = e) IN IF c = <<>> THEN Zero ELSE c[1].x
Emission(f, e) ==
  LET h == AtEpoch(f, e)  before == EmittedUpTo(f, e - 1) IN
  IF h.end <= e \/ h.amt \preceq before THEN Zero ELSE (h.amt -- before) // N(h.end - e)

\* insert a ledger / history entry keeping the sequence ascending in e
InsertAt(sq, r) == SelectSeq(sq, LAMBDA h : h.e < r.e) \o <<r>> \o SelectSeq(sq, LAMBDA h : h.e > r.e)

\* expand_flow at epoch cur by x tokens, the end moved to newEnd (>= the current final end): the change takes effect
\* from the next epoch; a second expansion in the same epoch adds to the same entry
ExpandedHist(f, cur, x, newEnd) ==
  IF \E i \in DOMAIN f.hist : f.hist[i].e = cur + 1
  THEN [i \in DOMAIN f.hist |-> IF f.hist[i].e = cur + 1 THEN [e |-> cur + 1, amt |-> f.hist[i].amt ++ x, end |-> newEnd]
                                ELSE f.hist[i]]
  ELSE InsertAt(f.hist, [e |-> cur + 1, amt |-> AtEpoch(f, cur).amt ++ x, end |-> newEnd])

\* One claim walking over one flow (the loop of claim.rs), epochs first .. cur.  Sh[e]: the claimer's share of epoch e in
\* decimal atomics (its weight over the epoch's global weight snapshot; 0 = no weight or no snapshot: the epoch is walked
\* over, and entered in the ledger, but pays nothing).  acc = [ok, why, em, claimed, pays]; the walk stops at the first
\* refusal (the whole claim is then reverted by the caller).
RECURSIVE ClaimWalk(_, _, _, _, _)
ClaimWalk(f, e, cur, Sh, acc) ==
  IF e > cur \/ ~acc.ok \/ e >= FinalEnd(f) THEN acc
  ELSE IF e < f.start THEN ClaimWalk(f, e + 1, cur, Sh, acc)
  ELSE
    LET fe == [f EXCEPT !.em = acc.em]
        h == AtEpoch(f, e)
        before == EmittedUpTo(fe, e - 1)
    IN IF h.end <= e THEN [acc EXCEPT !.ok = FALSE, !.why = "divide-by-zero"]
       ELSE
         LET emission == Monus(h.amt, before) // N(h.end - e)
             em1 == IF HasLedger(fe, e) THEN acc.em ELSE InsertAt(acc.em, [e |-> e, x |-> emission ++ before])
         IN IF Sh[e] = Zero THEN ClaimWalk(f, e + 1, cur, Sh, [acc EXCEPT !.em = em1])
            ELSE LET reward == MulFloor(emission, Sh[e]) IN
                 IF emission \prec reward \/ FinalAmount(f) \prec (acc.claimed ++ reward)
                 THEN [acc EXCEPT !.ok = FALSE, !.why = "invalid-reward"]
                 ELSE ClaimWalk(f, e + 1, cur, Sh,
                                [acc EXCEPT !.em = em1, !.claimed = @ ++ reward,
                                            !.pays = IF reward = Zero THEN @ ELSE Append(@, [e |-> e, x |-> reward])])
\* the share of a weight in a global weight, as claim.rs and the share query compute it
ShareOf(w, g) == IF g = Zero THEN Zero ELSE FromRatio(w, g)
=============================================================================
