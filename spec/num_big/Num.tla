------------------------------- MODULE Num -------------------------------
(* Arithmetic back end 2: integers as canonical decimal strings, every     *)
(* operator overridden in Java (tlc/BigNum.java, java.math.BigInteger).    *)
(* The bodies below are placeholders that are never evaluated: TLC must be *)
(* started with -Dtlc2.overrides.TLCOverrides=...:WWOverrides (bin/tlcw).  *)
EXTENDS Integers

N(i) == CHOOSE s \in STRING : TRUE
a ++ b == CHOOSE s \in STRING : TRUE
a -- b == CHOOSE s \in STRING : TRUE
a ** b == CHOOSE s \in STRING : TRUE
a // b == CHOOSE s \in STRING : TRUE
a %% b == CHOOSE s \in STRING : TRUE
a \preceq b == CHOOSE s \in BOOLEAN : TRUE
a \prec b == CHOOSE s \in BOOLEAN : TRUE
Sqrt(a) == CHOOSE s \in STRING : TRUE
Pow(a, k) == CHOOSE s \in STRING : TRUE
NMin(a, b) == CHOOSE s \in STRING : TRUE
NMax(a, b) == CHOOSE s \in STRING : TRUE
Bits(a) == CHOOSE s \in Int : TRUE
ToInt(a) == CHOOSE s \in Int : TRUE
IsNum(a) == CHOOSE s \in BOOLEAN : TRUE
==========================================================================
