------------------------------ MODULE MC_Helper ------------------------------
(* Bounded model of a frontend-helper deposit, message by message (Int back    *)
(* end): funds reach the helper, the pair mints LP to the helper (constant      *)
(* product, pro rata), the helper stakes its whole LP balance for the caller;   *)
(* any failure reverts everything.  Every deposit, stray LP / coin balance on   *)
(* the helper and prior position within the bounds.  The finished transaction   *)
(* is judged by Helper!DepositChecks, the operator that judges the real         *)
(* helper.  Keep > 0 is the deviation in which the helper stakes all but Keep   *)
(* units: MC_Helper_witness.cfg expects ClausesHold to be violated.             *)
EXTENDS Helper, Naturals, FiniteSets

CONSTANTS MaxD, Keep
VARIABLES st, pc, tx, bad
vars == <<st, pc, tx, bad>>

Min(a, b) == IF a <= b THEN a ELSE b
Init ==
  /\ st \in { [helper |-> [lp |-> hl, a |-> ha], user |-> [lp |-> 0, a |-> <<6, 6>>], inc_lp |-> il, S |-> 4 + il + hl,
               pos |-> p, pair |-> <<4, 8>>] :
                hl \in {0, 1}, ha \in {<<0, 0>>, <<1, 0>>}, il \in {0, 2}, p \in {0, 2} }
  /\ st.pos <= st.inc_lp
  /\ pc = "idle" /\ tx = [d |-> <<0, 0>>] /\ bad = {}
Begin ==
  /\ pc = "idle"
  /\ \E d1 \in 1 .. MaxD, d2 \in 1 .. MaxD :
       /\ tx' = [d |-> <<d1, d2>>, snap |-> st]
       /\ st' = [st EXCEPT !.user.a = <<@[1] - d1, @[2] - d2>>, !.helper.a = <<@[1] + d1, @[2] + d2>>]
       /\ pc' = "provide" /\ UNCHANGED bad
Provide ==
  /\ pc = "provide"
  /\ LET d == tx.d
         minted == Min((d[1] * st.S) \div st.pair[1], (d[2] * st.S) \div st.pair[2])
     IN IF minted = 0
        THEN /\ st' = tx.snap /\ pc' = "done"
             /\ bad' = Failed(DepositChecks(tx.snap, tx.snap, d, FALSE, TRUE)) /\ UNCHANGED tx
        ELSE /\ st' = [st EXCEPT !.pair = <<@[1] + d[1], @[2] + d[2]>>, !.helper.a = <<@[1] - d[1], @[2] - d[2]>>,
                                 !.helper.lp = @ + minted, !.S = @ + minted]
             /\ pc' = "stake" /\ UNCHANGED <<tx, bad>>
Stake ==
  /\ pc = "stake"
  /\ LET amt == IF st.helper.lp > Keep THEN st.helper.lp - Keep ELSE 0
         t == [st EXCEPT !.helper.lp = @ - amt, !.inc_lp = @ + amt, !.pos = @ + amt]
     IN /\ st' = t /\ pc' = "done" /\ UNCHANGED tx
        /\ bad' = Failed(DepositChecks(tx.snap, t, tx.d, TRUE, FALSE))
Next == Begin \/ Provide \/ Stake
Spec == Init /\ [][Next]_vars
ClausesHold == bad = {}
=============================================================================
