------------------------------ MODULE WeightHist ------------------------------
(* ADDRESS_WEIGHT_HISTORY of the incentive contract, entry by entry (open_position.rs, expand_position.rs,     *)
(* close_position.rs, claim.rs, queries/get_rewards_share.rs).                                                   *)
(* The history of one address is h : Seq([e, w]) ascending in e: "from epoch e on the address has weight w".    *)
(*   - opening, expanding and closing a position write the address's new weight under the NEXT epoch;           *)
(*   - a claim walks every flow it is paid from, remembers the last entry its walk READ, deletes the whole      *)
(*     history and writes that remembered weight under the next epoch;                                          *)
(*   - the share query starts at the earliest entry and takes the latest entry up to the current epoch.         *)
(* This is a transcription of what the code does today, not a statement of what it ought to do: it is the named *)
(* deviation behind known finding S9 (the shares of an epoch can exceed 100 % once a position was closed).      *)
(* The trace validator carries these histories along (never re-aligned with the contract's storage) and        *)
(* excuses shares above 100 % only where this transcription predicts them - so a NEW cause of the same effect   *)
(* is a violation.  MC_WeightHist.tla explores the same operators exhaustively on small weights.                *)
EXTENDS Dec, Sequences

Put(h, e, w) == SelectSeq(h, LAMBDA r : r.e < e) \o <<[e |-> e, w |-> w]>> \o SelectSeq(h, LAMBDA r : r.e > e)
HasAt(h, e) == \E i \in DOMAIN h : h[i].e = e
At(h, e) == LET c == SelectSeq(h, LAMBDA r : r.e = e) IN c[1].w

\* get_rewards_share.rs: the weight the share query uses for epoch cur
ShareWeight(h, cur) ==
  IF h = <<>> \/ h[1].e > cur THEN Zero
  ELSE LET c == SelectSeq(h, LAMBDA r : r.e <= cur) IN c[Len(c)].w

\* claim.rs, inner loop over the epochs e .. cur of one flow f = [start, fend]; n epochs counted so far (cap 100);
\* (lu, lw) = epoch and weight of the last history entry seen
RECURSIVE WalkEpochs(_, _, _, _, _, _, _)
WalkEpochs(h, f, e, cur, n, lu, lw) ==
  IF e > cur \/ n + 1 > 100 THEN [lu |-> lu, lw |-> lw]
  ELSE IF e < f.start THEN WalkEpochs(h, f, e + 1, cur, n + 1, lu, lw)      \* skipped BEFORE the history is read
  ELSE IF e >= f.fend THEN [lu |-> lu, lw |-> lw]                            \* the flow is over: the walk stops
  ELSE IF HasAt(h, e) THEN WalkEpochs(h, f, e + 1, cur, n + 1, e, At(h, e))
  ELSE WalkEpochs(h, f, e + 1, cur, n + 1, lu, lw)

\* claim.rs, outer loop over the available flows in storage order; flows[i] = [start, fend, skip]
\* (skip: the flow has ended and is claimed out - the loop passes over it without resetting what it remembers);
\* lastClaimed = -1 for an address that never claimed
RECURSIVE WalkFlows(_, _, _, _, _, _)
WalkFlows(h, flows, i, cur, lastClaimed, acc) ==
  IF i > Len(flows) THEN acc
  ELSE LET f == flows[i] IN
       IF f.skip THEN WalkFlows(h, flows, i + 1, cur, lastClaimed, acc)
       ELSE LET lu0 == IF h = <<>> THEN 0 ELSE h[1].e
                lw0 == IF h = <<>> THEN Zero ELSE h[1].w
                first == IF lastClaimed >= 0 THEN lastClaimed + 1 ELSE IF f.start > lu0 THEN lu0 ELSE f.start
            IN WalkFlows(h, flows, i + 1, cur, lastClaimed, WalkEpochs(h, f, first, cur, 0, lu0, lw0))

\* the weight a successful claim writes back under cur + 1 (zero when no flow was walked)
ClaimWrites(h, flows, cur, lastClaimed) == WalkFlows(h, flows, 1, cur, lastClaimed, [lu |-> 0, lw |-> Zero]).lw
AfterClaim(h, flows, cur, lastClaimed) == <<[e |-> cur + 1, w |-> ClaimWrites(h, flows, cur, lastClaimed)]>>
\* a position change of an address whose weight becomes w
AfterChange(h, cur, w) == Put(h, cur + 1, w)
=============================================================================
