SPECIFICATION Spec
CONSTANTS
  DEC = 10
  U128MAX = 255
  NTop = 40
  Grid = {0, 1, 3, 5, 9}
INVARIANT C02Holds
CHECK_DEADLOCK FALSE
