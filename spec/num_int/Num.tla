------------------------------- MODULE Num -------------------------------
(* Arithmetic back end 1: native TLC integers.  Used for exhaustive model  *)
(* checking with small constants.  The same interface is implemented by    *)
(* spec/num_big/Num.tla over decimal strings (Java BigInteger override).   *)
EXTENDS Integers

N(i) == i
a ++ b == a + b
a -- b == a - b
a ** b == a * b
a // b == a \div b
a %% b == a % b
a \preceq b == a <= b
a \prec b == a < b

RECURSIVE SqrtFrom(_, _)
SqrtFrom(a, r) == IF (r + 1) * (r + 1) > a THEN r ELSE SqrtFrom(a, r + 1)
Sqrt(a) == SqrtFrom(a, 0)

RECURSIVE Pow(_, _)
Pow(a, k) == IF k = 0 THEN 1 ELSE a * Pow(a, k - 1)

NMin(a, b) == IF a <= b THEN a ELSE b
NMax(a, b) == IF a >= b THEN a ELSE b

RECURSIVE BitsFrom(_, _)
BitsFrom(a, k) == IF a = 0 THEN k ELSE BitsFrom(a \div 2, k + 1)
Bits(a) == BitsFrom(IF a < 0 THEN -a ELSE a, 0)

ToInt(a) == a
IsNum(a) == a \in Int
==========================================================================
