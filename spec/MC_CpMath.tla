----------------------------- MODULE MC_CpMath -----------------------------
(* Exhaustive check of C02 on the whole small domain: every (offer reserve,  *)
(* ask reserve, offer) in 1..N^3, every fee triple of a grid with total < 1, *)
(* at reduced decimal precision DEC (so that the double floor through the    *)
(* fixed-point representation is relatively as large as it can get).         *)
(* One state per (offer reserve, ask reserve); the invariant quantifies over the rest.      *)
EXTENDS CpMath, TLC

CONSTANTS NTop, Grid

VARIABLES op, ak   \* 0 = not chosen yet (two levels so that TLC's workers share the domain)

FeeGrid == { f \in [p : Grid, s : Grid, b : Grid] : f.p + f.s + f.b < DEC }

Init == op = 0 /\ ak = 0
Next == \/ op = 0 /\ op' \in 1 .. NTop /\ ak' = 0
        \/ op > 0 /\ ak = 0 /\ ak' \in 1 .. NTop /\ op' = op
Spec == Init /\ [][Next]_<<op, ak>>

C02Holds ==
  (op > 0 /\ ak > 0) => \A off \in 1 .. NTop, f \in FeeGrid :
    LET o == CpSwap(op, ak, off, f) IN
      /\ AllOk(CpRules(op, ak, off, f, o))
      /\ o.spread >= 0
      \* there and straight back, for every fee triple including zero
      /\ LET b == BackReserves(op, ak, off, o) IN
           (o.ret > 0 /\ b.op > 0) => CpSwap(b.op, b.ak, b.off, f).ret <= off
=============================================================================
