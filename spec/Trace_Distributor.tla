-------------------------- MODULE Trace_Distributor --------------------------
(* Trace validation of the real fee distributor (with lair and collector)      *)
(* against Distributor.tla (C09; and the distributor side of C10).             *)
EXTENDS Distributor, Json, IOUtils

Rec == ndJsonDeserialize(IOEnv.TRACE)
VARIABLES l, st
vars == <<l, st>>

\* state from the observation; ghosts (paid set, rolled flags) are carried by the specification
StOf(o, paid, rolled, bondT, bondN) ==
  [ eps |-> [i \in 1 .. Len(o.eps) |->
               [id |-> o.eps[i].id, total |-> o.eps[i].total, available |-> o.eps[i].available,
                claimed |-> o.eps[i].claimed, rolled |-> i \in rolled, start |-> o.eps[i].start]],
    dbal |-> o.dbal, w |-> o.w, grace |-> o.grace, paid |-> paid, first |-> o.first, bonded |-> o.bonded, bondT |-> bondT, bondN |-> bondN ]
RolledOf(s) == { i \in 1 .. NEp(s) : s.eps[i].rolled }

Common(ev, t) ==
  StateChecks(t)
  \o << <<"C09.epochs.ids-consecutive", \A i \in 1 .. NEp(t) : t.eps[i].id = i>>,
        <<"C09.epochs.single-asset", \A i \in 1 .. Len(ev.obs.eps) : ~ev.obs.eps[i].other>>,
        <<"C18.grace.in-range-and-monotone", 1 <= ev.obs.grace /\ ev.obs.grace <= 30 /\ st.grace <= ev.obs.grace>>,
        <<"C18.obs.grace-as-last-set", ev.obs.grace = t.grace>> >>

Untouched(t) ==
  << <<"C09.rejected-or-unrelated.ledgers-unchanged",
        NEp(t) = NEp(st) /\ \A i \in 1 .. NEp(st) :
          t.eps[i].total = st.eps[i].total /\ t.eps[i].available = st.eps[i].available /\ t.eps[i].claimed = st.eps[i].claimed>>,
     <<"C09.rejected-or-unrelated.distributor-balance-unchanged", t.dbal = st.dbal>> >>

\* drift: today's reward formula floor(total * share) with the share the lair reported before the claim
ImplRewards(ev, t) ==
  \A k \in DOMAIN ev.pre.shares :
    LET sh == ev.pre.shares[k] IN
      sh.share # "err" => Dec(st, t, sh.id) = MulFloor(sh.total, sh.share)

Forwarded(pre) == pre.inflow -- MulFloor(pre.inflow, pre.take)
EvChecks(ev, t) ==
  (CASE ev.ev = "newepoch" ->
          \* what the collector forwards: its balance of the distribution asset, minus the DAO's cut floor(take * balance)
          \* when the take rate is switched on
          IF ev.res = "ok" THEN NewEpochChecks(st, Forwarded(ev.pre), t)
                                \o << <<"C10.newepoch.collector-forwards-its-balance", ev.out.received = Forwarded(ev.pre)>>,
                                      \* C10's own wording: what was transferred = the new epoch's total minus what was rolled over
                                      <<"C10.newepoch.transferred=new-total-minus-rolled-over",
                                         LET x == Expiring(st)
                                             \* (what the expiring epoch still owed: its total minus what was claimed
                                             \*  from it - not whatever its `available` field happens to say;
                                             \*  an epoch that has rolled over before - it can come up again after the
                                             \*  grace period was raised - has nothing left)
                                             roll == IF x = 0 \/ st.eps[x].rolled THEN Zero
                                                     ELSE Monus(st.eps[x].total, st.eps[x].claimed)
                                             e == t.eps[NEp(t)]
                                         IN NEp(t) = NEp(st) + 1 => (roll \preceq e.total /\ ev.out.received = e.total -- roll)>> >>
          ELSE Untouched(t)
     [] ev.ev = "claim" ->
          IF ev.res = "ok" THEN ClaimChecks(st, ev.actor, t, ev.out.paid,
                                            \* "an epoch that started before it bonded": an epoch that existed when the
                                            \* claimer bonded and whose start time lies before the bonding time.  An epoch
                                            \* created after the bonding is not one, even when it is created late and its
                                            \* nominal start (previous start + duration) lies before the bonding time; nor is
                                            \* an epoch created in the very block of the bonding, which starts AT that time.
                                            { i \in 1 .. NEp(st) : st.bondT[ev.actor] # "none"
                                                                   /\ (st.bondT[ev.actor] \preceq st.eps[i].start \/ i > st.bondN[ev.actor]) })
                                \o << <<"drift.claim.reward=floor(total*share)", ImplRewards(ev, t)>> >>
          ELSE Untouched(t)
     \* setasset: the owner switches the distribution asset; the ledgers of every asset stay as they are
     \* setgrace: the grace period in force is the one the last accepted update set (the specification's own: st.grace is
     \* not re-read from the contract), within 1..30 and never lowered
     [] ev.ev = "setgrace" ->
          Untouched(t) \o
          (IF ev.res = "ok"
           THEN << <<"C18.setgrace.accepted-in-range-and-not-lowered",
                      1 <= ToInt(ev.args.x) /\ ToInt(ev.args.x) <= 30 /\ st.grace <= ToInt(ev.args.x)>>,
                   <<"C18.setgrace.stored-as-set", ev.obs.grace = ToInt(ev.args.x)>> >>
           ELSE << <<"C18.setgrace.rejected-leaves-it", ev.obs.grace = st.grace>> >>)
     [] ev.ev \in {"bond", "unbond", "tick", "setasset"} -> Untouched(t)
     [] OTHER -> << <<"TRACE.unknown-event", FALSE>> >>)
  \o Common(ev, t)

Report(ev, bad) ==
  IF bad = {} THEN TRUE
  ELSE PrintT(ToJson([k |-> "BAD", run |-> ev.run, step |-> IF ev.ev = "reset" THEN -1 ELSE ev.step,
                      line |-> l, ev |-> ev.ev, bad |-> bad]))

Init == l = 1 /\ st = [eps |-> <<>>]
Next ==
  /\ l <= Len(Rec)
  /\ LET ev == Rec[l] IN
       IF ev.ev = "reset" THEN st' = StOf(ev.obs, {}, {}, [u \in Users |-> "none"], [u \in Users |-> 0])
       ELSE LET newPaid == IF ev.ev = "claim" /\ ev.res = "ok" /\ Len(ev.obs.eps) = NEp(st)
                           THEN st.paid \cup { <<ev.actor, i>> : i \in { j \in 1 .. NEp(st) : ev.obs.eps[j].available # st.eps[j].available } }
                           ELSE st.paid
                newRolled == IF ev.ev = "newepoch" /\ ev.res = "ok" /\ Expiring(st) # 0
                             THEN RolledOf(st) \cup {Expiring(st)} ELSE RolledOf(st)
                \* the time since which the address has been bonded (reset when it unbonds everything)
                newBondT == [u \in Users |->
                               IF ~ev.obs.bonded[u] THEN "none"
                               ELSE IF st.bondT[u] = "none" THEN ev.obs.now ELSE st.bondT[u]]
                \* ... and how many epochs existed at that moment
                newBondN == [u \in Users |->
                               IF ~ev.obs.bonded[u] THEN 0
                               ELSE IF st.bondT[u] = "none" THEN NEp(st) ELSE st.bondN[u]]
                t0 == StOf(ev.obs, newPaid, newRolled, newBondT, newBondN)
                t == [t0 EXCEPT !.grace = IF ev.ev = "setgrace" /\ ev.res = "ok" THEN ToInt(ev.args.x) ELSE st.grace]
            IN Report(ev, Failed(EvChecks(ev, t))) /\ st' = t
  /\ l' = l + 1
Spec == Init /\ [][Next]_vars
Consumed ==
  /\ PrintT(ToJson([k |-> "CONSUMED", consumed |-> TLCGet("stats").diameter - 1, lines |-> Len(Rec)]))
  /\ TLCGet("stats").diameter - 1 = Len(Rec)
=============================================================================
