----------------------------- MODULE MC_Epochs -----------------------------
(* All interleavings of time steps (to just before / at / just after the     *)
(* boundary, +1, several durations late), creation attempts (also repeated   *)
(* in one block) and hook (un)registration, for both clock kinds.            *)
EXTENDS Epochs, Json

CONSTANTS Dur, Genesis, MaxNow, MaxId, SchedDepth, EmitSched, Kind

VARIABLES st, hist

Init ==
  /\ st = [ kind |-> Kind, id |-> 0, start |-> IF Kind = "manager" THEN Genesis ELSE 0, dur |-> Dur,
            genesis |-> Genesis, now |-> 0, hooks |-> {}, logs |-> [h \in AllHooks |-> <<>>] ]
  /\ hist = <<>>

Op(o) == hist' = IF EmitSched THEN Append(hist, o) ELSE hist

Create == AllOk(CreateChecks(st)) /\ st.id < MaxId /\ st' = CreateNext(st) /\ Op([op |-> "create", x |-> "ok"])
\* an early attempt is a step of the schedule too (the contract must reject it): stuttering in the model
Early == ~Due(st) /\ EmitSched /\ st' = st /\ Op([op |-> "create", x |-> "early"])
Tick(c) == TickTarget(st, c) <= MaxNow /\ st' = TickNext(st, TickTarget(st, c)) /\ Op([op |-> "tick", x |-> c])
AddHook(h) == st.kind = "manager" /\ h \notin st.hooks /\ st' = AddHookNext(st, h) /\ Op([op |-> "addhook", x |-> h])
RemoveHook(h) == st.kind = "manager" /\ h \in st.hooks /\ st' = RemoveHookNext(st, h) /\ Op([op |-> "removehook", x |-> h])

Next == Create \/ Early \/ (\E c \in {"plus1", "before", "at", "after", "late"} : Tick(c))
        \/ (\E h \in AllHooks : AddHook(h) \/ RemoveHook(h))
Spec == Init /\ [][Next]_<<st, hist>>
View == st
Depth == Len(hist) <= SchedDepth

StepOK == [][AllOk(StepChecks(st, st'))]_<<st, hist>>
NeverEarly == [][st'.id # st.id => Due(st)]_<<st, hist>>
\* ids and start times are gap-free: epoch k starts at first-start + (k-1)*duration, and every hook's log is
\* a gap-free run of consecutive epochs for each period of registration (one notification per epoch)
FirstStart == IF Kind = "manager" THEN Genesis + Dur ELSE Genesis
GapFree == st.id >= 1 => st.start = FirstStart + (st.id - 1) * Dur
HookLogsOK ==
  \A h \in AllHooks : \A i \in 1 .. Len(st.logs[h]) :
    /\ st.logs[h][i].start = FirstStart + (st.logs[h][i].id - 1) * Dur
    /\ (i > 1 => st.logs[h][i].id > st.logs[h][i - 1].id)
    /\ st.logs[h][i].id <= st.id
\* an epoch never starts in the future and is never created before genesis
NotEarly == st.id >= 1 => st.start <= st.now /\ Genesis <= st.now
Emit == (EmitSched /\ Len(hist) = SchedDepth) => PrintT(ToJson([k |-> "SCHED", ops |-> hist]))
=============================================================================
