---------------------------- MODULE Trace_Toggles ----------------------------
(* Trace validation of the pause-switch product (C17) against Toggles.tla.     *)
EXTENDS Toggles, Json, IOUtils, Integers

Rec == ndJsonDeserialize(IOEnv.TRACE)
VARIABLES l, flags, liq
vars == <<l, flags, liq>>

Failed(checks) == { checks[i][1] : i \in { j \in DOMAIN checks : ~checks[j][2] } }

EvChecks(ev) ==
  CASE ev.ev = "op" -> OpChecks(flags, ev.args.op, liq, ev.res, ev.dpre = ev.dpost)
                       \o << <<"C17.operation-leaves-flags-alone", ev.obs.flags = flags>> >>
    [] ev.ev = "setflags" ->
         << <<"C17.operator-can-set-flags", ev.res = "ok">>,
            <<"C17.flags-stored-as-set", ev.res = "ok" => ev.obs.flags = ev.args.flags>> >>
    [] ev.ev = "reset" ->
         << <<"C17.fresh.all-enabled", ev.obs.flags.deposit /\ ev.obs.flags.withdraw /\ ev.obs.flags.third>> >>
    [] OTHER -> << <<"TRACE.unknown-event", FALSE>> >>

Report(ev, bad) ==
  IF bad = {} THEN TRUE
  ELSE PrintT(ToJson([k |-> "BAD", run |-> ev.run, step |-> IF ev.ev = "reset" THEN -1 ELSE ev.step,
                      line |-> l, ev |-> ev.ev, bad |-> bad]))
Init == l = 1 /\ flags = [deposit |-> TRUE, withdraw |-> TRUE, third |-> TRUE] /\ liq = TRUE
Next ==
  /\ l <= Len(Rec)
  /\ LET ev == Rec[l] IN
       /\ Report(ev, Failed(EvChecks(ev)))
       /\ flags' = ev.obs.flags
       /\ liq' = IF ev.ev = "reset" THEN ev.cfg.liq ELSE liq
  /\ l' = l + 1
Spec == Init /\ [][Next]_vars
Consumed ==
  /\ PrintT(ToJson([k |-> "CONSUMED", consumed |-> TLCGet("stats").diameter - 1, lines |-> Len(Rec)]))
  /\ TLCGet("stats").diameter - 1 = Len(Rec)
=============================================================================
