------------------------------- MODULE MC_Trio -------------------------------
(* Bounded model of the three-asset pool (Int back end): every interleaving of  *)
(* ramps (accepted exactly when Trio!RampOk), block ticks, swaps in all six     *)
(* directions, deposits, withdrawals and fee collections, performed by a        *)
(* rounding-correct implementation of the curve (y and D taken from Stable.tla, *)
(* proceeds rounded down, fees floor(share * gross)).  Each step is judged by   *)
(* the same clause operators (Trio!*Checks) that judge the real contract in     *)
(* Trace_Trio, so the model shows that the clauses are satisfiable together,    *)
(* that none of them is vacuous (Witness* invariants are expected to FAIL when  *)
(* enabled) and that the ramp rules keep the effective amplification inside     *)
(* [MIN_AMP, MAX_AMP] and between start and target at every height.             *)
EXTENDS Trio, Naturals, Sequences, FiniteSets

CONSTANTS MaxHeight, MaxRes, FeeP, FeeS, FeeB, RampsOn, PoolOn
Fees == [p |-> FeeP, s |-> FeeS, b |-> FeeB]
VARIABLES s, bad
vars == <<s, bad>>

Init ==
  /\ s = [init |-> 4, future |-> 4, start |-> 0, stop |-> 0, height |-> 0,
          res |-> <<3, 3, 3>>, S |-> 9, fee |-> <<0, 0, 0>>, bal |-> <<3, 3, 3>>]
  /\ bad = {}

Judge(checks, t) == bad' = Failed(checks \o StateChecks(t)) /\ s' = t

Ramp ==
  /\ RampsOn
  /\ \E fa \in 0 .. MAX_AMP + 1, db \in {0, MIN_RAMP_BLOCKS - 1, MIN_RAMP_BLOCKS, MIN_RAMP_BLOCKS + 1}, byOwner \in BOOLEAN :
       LET fb == s.height + db
           ok == byOwner /\ RampOk(s, fa, fb)
           t == IF ok THEN RampNext(s, fa, fb) ELSE s
       IN Judge(RampChecks(s, byOwner, fa, fb, ok, t), t)
Tick ==
  /\ RampsOn /\ s.height < MaxHeight
  /\ \E n \in 1 .. 2 : Judge(Untouched(s, s), [s EXCEPT !.height = s.height + n])
Swap ==
  /\ PoolOn
  /\ \E i \in Idx, j \in Idx, offer \in 1 .. 3 :
       /\ i # j /\ s.res[i] + offer <= MaxRes
       /\ LET k == CHOOSE n \in Idx : n # i /\ n # j
              amp == AmpNow(s)
              D == DOf(s.res, amp)
              y1 == Ystar3(s.res[i] + offer, s.res[k], D, amp)
              gross == IF y1 < s.res[j] THEN s.res[j] - y1 ELSE 0
              o == [ret |-> gross - MulFloor(gross, Fees.s) - MulFloor(gross, Fees.p) - MulFloor(gross, Fees.b),
                    sf |-> MulFloor(gross, Fees.s), pf |-> MulFloor(gross, Fees.p), bf |-> MulFloor(gross, Fees.b), spread |-> 0]
              t == SwapNext(s, i, j, offer, o)
          IN gross > 0 /\ Judge(SwapChecks(s, Fees, i, j, k, offer, gross, o, t), t)
Provide ==
  /\ PoolOn
  /\ \E d \in {<<1, 0, 0>>, <<0, 2, 0>>, <<1, 1, 1>>, <<0, 1, 2>>} :
       /\ \A n \in Idx : s.res[n] + d[n] <= MaxRes
       /\ LET amp == AmpNow(s)
              D0 == DOf(s.res, amp)
              r1 == [n \in Idx |-> s.res[n] + d[n]]
              D1 == DOf(r1, amp)
              m == (s.S * (D1 - D0)) \div D0
              t == [s EXCEPT !.res = r1, !.bal = [n \in Idx |-> s.bal[n] + d[n]], !.S = s.S + m]
          IN D1 > D0 /\ Judge(ProvideChecks(s, d, m, m, FALSE, 0, t), t)
Withdraw ==
  /\ PoolOn
  /\ \E amt \in 1 .. 3 :
       /\ amt < s.S
       /\ LET pay == [n \in Idx |-> (s.res[n] * amt) \div s.S]
              t == [s EXCEPT !.res = [n \in Idx |-> s.res[n] - pay[n]], !.bal = [n \in Idx |-> s.bal[n] - pay[n]], !.S = s.S - amt]
          IN (\A n \in Idx : t.res[n] >= 1) /\ Judge(WithdrawChecks(s, amt, t), t)
Collect ==
  /\ PoolOn /\ s.fee # <<0, 0, 0>>
  /\ LET t == [s EXCEPT !.fee = <<0, 0, 0>>, !.bal = [n \in Idx |-> s.bal[n] - s.fee[n]]] IN Judge(CollectChecks(s, t), t)

Next == Ramp \/ Tick \/ Swap \/ Provide \/ Withdraw \/ Collect
Spec == Init /\ [][Next]_vars

\* every clause of every step holds for the rounding-correct implementation
ClausesHold == { n \in bad : SubSeq(n, 1, 6) # "drift." } = {}
\* non-vacuity witnesses (checked with the _witness cfg: each is expected to be violated)
WitnessRampDown == ~(s.init > s.future /\ s.height > s.start /\ s.height < s.stop)
WitnessFeesOwed == s.fee = <<0, 0, 0>>
=============================================================================
