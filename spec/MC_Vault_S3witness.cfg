SPECIFICATION Spec
CONSTANTS
  DEC = 100
  U128MAX = 100000
  MINLIQ = 2
  Users = {"u1", "u2"}
  StrictNested = FALSE
  Nested = TRUE
  Amt = {3, 5}
  LoanAmt = {1, 4}
  Wallet0 = 100000
  MaxBal = 12
  MaxS = 9
CONSTRAINT Bounded
VIEW View
INVARIANTS StateOK ImplOK DepositThenWithdraw LoanTxOK RouterTxOK ExactSuffices
PROPERTY StepOK
CHECK_DEADLOCK FALSE
