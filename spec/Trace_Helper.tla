---------------------------- MODULE Trace_Helper ----------------------------
(* Trace validation of real frontend-helper deposits against Helper.tla.    *)
EXTENDS Helper, Json, IOUtils

Rec == ndJsonDeserialize(IOEnv.TRACE)
VARIABLES l
vars == <<l>>

EvChecks(ev) ==
  CASE ev.ev = "hdeposit" -> DepositChecks(ev.pre, ev.obs, ev.args.d, ev.res = "ok", ev.dpre = ev.dpost)
    [] ev.ev \in {"stray", "close", "withdraw", "tick"} -> <<>>
    [] OTHER -> << <<"TRACE.unknown-event", FALSE>> >>

Report(ev, bad) ==
  IF bad = {} THEN TRUE
  ELSE PrintT(ToJson([k |-> "BAD", run |-> ev.run, step |-> IF ev.ev = "reset" THEN -1 ELSE ev.step,
                      line |-> l, ev |-> ev.ev, bad |-> bad]))
Init == l = 1
Next ==
  /\ l <= Len(Rec)
  /\ LET ev == Rec[l] IN IF ev.ev = "reset" THEN TRUE ELSE Report(ev, Failed(EvChecks(ev)))
  /\ l' = l + 1
Spec == Init /\ [][Next]_vars
Consumed ==
  /\ PrintT(ToJson([k |-> "CONSUMED", consumed |-> TLCGet("stats").diameter - 1, lines |-> Len(Rec)]))
  /\ TLCGet("stats").diameter - 1 = Len(Rec)
=============================================================================
