SPECIFICATION Spec
CONSTANTS
  DEC = 10
  U128MAX = 1000000
  NS = 1
  Users = {"a", "b"}
  Amts = {1, 3}
  Totals = {10}
  MaxNow = 5
  Rate = 10
  Rebond = FALSE
  MaxOps = 5
  MaxEpochs = 3
INVARIANTS NeverRefused AvailWithinTotal
CHECK_DEADLOCK FALSE
