SPECIFICATION Spec
CONSTANTS
  DEC = 100
  U128MAX = 100000
  AllHooks = {"h1"}
  Dur = 4
  Genesis = 3
  MaxNow = 40
  MaxId = 6
  SchedDepth = 5
  EmitSched = TRUE
  Kind = "manager"
CONSTRAINT Depth
INVARIANTS GapFree NotEarly Emit
PROPERTIES StepOK NeverEarly
CHECK_DEADLOCK FALSE
