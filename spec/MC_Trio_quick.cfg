SPECIFICATION Spec
CONSTANTS
  DEC = 10
  U128MAX = 100000
  MIN_AMP = 1
  MAX_AMP = 12
  MAX_AMP_CHANGE = 2
  MIN_RAMP_BLOCKS = 2
  MaxHeight = 7
  MaxRes = 7
  FeeP = 1
  FeeS = 2
  FeeB = 1
  RampsOn = TRUE
  PoolOn = FALSE
INVARIANTS ClausesHold
CHECK_DEADLOCK FALSE
