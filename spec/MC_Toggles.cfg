SPECIFICATION Spec
INVARIANTS Sane Emit
CHECK_DEADLOCK FALSE
