SPECIFICATION Spec
CONSTANTS
  DEC = 10
  U128MAX = 1000000
  NS = 1
  Users = {"a", "b", "c"}
  Amts = {1, 3}
  MaxNow = 6
  Rate = 10
  Rebond = FALSE
  MaxOps = 6
INVARIANTS AmountsAddUp WeightsWithinGlobal WeightsWithinGlobalLater
CHECK_DEADLOCK FALSE
