SPECIFICATION Spec
CONSTANTS
  DEC = 100
  U128MAX = 100000
  Users = {"u1", "u2"}
  Denoms = {"d1", "foreign"}
  PageLimit = 3
  Amt = {1, 2}
  Period = 3
  MaxNow = 7
  Wallet0 = 3
  SchedDepth = 5
  EmitSched = TRUE
  MaxUnb = 4
CONSTRAINT Depth
INVARIANTS StateOK Emit
CHECK_DEADLOCK FALSE
