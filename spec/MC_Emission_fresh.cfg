SPECIFICATION Spec
CONSTANTS
  DEC = 100
  U128MAX = 1000000
  Users = {"a", "b"}
  MaxEpoch = 4
  Amts = {12}
  Weights = {0, 1, 2}
  BackDate = {0, 1}
  Lens = {2, 3}
  ExpandAmts = {7}
  Extend = {0, 2}
  LateStretch = FALSE
  AnyStart = FALSE
  MaxStakes = 1
  MaxExpands = 1
INVARIANTS ClaimedWithinFunded WithinAmount NeverRefused LedgerCumulative EpochWithinEmission
CHECK_DEADLOCK FALSE
