------------------------------ MODULE LairWeight ------------------------------
(* The bonding weights of the whale lair (state.rs::get_weight, commands.rs::bond / unbond, queries.rs::       *)
(* query_weight): every bond (one per address and denom) and the global index carry [amt, w, ts]; a weight       *)
(* grows by  floor(amt * seconds since ts * growth rate)  and is brought up to date whenever its record is        *)
(* touched.  The fee distributor splits an epoch by  address weight / global weight,  both evaluated at the       *)
(* epoch's start.  Beyond the listed properties (C08 is about custody): used by MC_LairWeight.tla (bounded         *)
(* model) and by Trace_Lair.tla to predict what the contract's Weight query answers.                               *)
EXTENDS Dec

CONSTANT NS            \* nanoseconds per second (10^9 on traces; 1 in the bounded model)

NoBond == [amt |-> Zero, w |-> Zero, ts |-> Zero]
Secs(t) == t // NS
\* get_weight: ts = 0 is Timestamp::default(), "never touched": no growth
GetWeight(now, w, amt, rate, ts) ==
  IF ts = Zero THEN w ELSE w ++ MulFloor(amt ** (Secs(now) -- Secs(ts)), rate)

\* bond: the new amount is added to the record first, then the weight of the WHOLE record - the new amount included -
\* is grown over the time since the record was last touched (commands.rs::bond, update_local_weight / update_global_weight)
BondRec(b, a, now, rate) ==
  LET amt1 == b.amt ++ a IN [amt |-> amt1, w |-> GetWeight(now, b.w ++ a, amt1, rate, b.ts), ts |-> now]

\* unbond: weight brought up to date, then slashed in proportion (Uint128 * Decimal::from_ratio: two floors)
Grown(b, now, rate) == GetWeight(now, b.w, b.amt, rate, b.ts)
Slash(b, a, now, rate) == MulFloor(Grown(b, now, rate), FromRatio(a, b.amt))
UnbondRec(b, a, now, rate) ==
  IF b.amt = a THEN NoBond     \* the record is removed
  ELSE [amt |-> b.amt -- a, w |-> Grown(b, now, rate) -- Slash(b, a, now, rate), ts |-> now]
\* the global index loses the same slash; the subtraction is checked: the real call fails when it would go below zero
GlobalUnbondOk(g, slash, now, rate) == slash \preceq Grown(g, now, rate)
GlobalUnbondRec(g, a, slash, now, rate) == [amt |-> g.amt -- a, w |-> Grown(g, now, rate) -- slash, ts |-> now]
=============================================================================
