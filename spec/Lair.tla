-------------------------------- MODULE Lair --------------------------------
(* Bonding contract (whale_lair): bond / unbond / withdraw at block times.    *)
(* The specification keeps one record per unbond call (a sequence, so two     *)
(* calls in the same block stay two records); conservation ties the           *)
(* contract's bank balance to bonds plus pending unbondings.                  *)
EXTENDS Dec, Sequences, FiniteSets, TLC

CONSTANTS Users, Denoms,   \* all native denoms in play (strings)
          PageLimit        \* withdraw looks at the oldest PageLimit records (30 in the code)

(* state: bonded : [Users -> [Denoms -> Num]] ; unb : Seq([u, d, t, amt]) in creation order
          cbal : [Denoms -> Num] contract balance ; w : [Users -> [Denoms -> Num]]
          now : Num (ns) ; period : Num (ns) ; white : SUBSET Denoms                       *)

RECURSIVE SumAmt(_)
SumAmt(sq) == IF sq = <<>> THEN Zero ELSE Head(sq).amt ++ SumAmt(Tail(sq))
SeqSum(sq, P(_)) == SumAmt(SelectSeq(sq, P))
SetSum(f, D) == LET RECURSIVE go(_)
                    go(X) == IF X = {} THEN Zero ELSE LET x == CHOOSE y \in X : TRUE IN f[x] ++ go(X \ {x})
                IN go(D)

Mine(s, u, d) == SelectSeq(s.unb, LAMBDA r : r.u = u /\ r.d = d)
Matured(s, r) == (r.t ++ s.period) \preceq s.now
\* the records a withdraw call sees: the caller's oldest PageLimit records of that denom
Page(s, u, d) == LET m == Mine(s, u, d) IN IF Len(m) <= PageLimit THEN m ELSE SubSeq(m, 1, PageLimit)
Payable(s, u, d) == SeqSum(Page(s, u, d), LAMBDA r : Matured(s, r))
PendingOf(s, d) == SeqSum(s.unb, LAMBDA r : r.d = d)
PendingOfUser(s, u, d) == SeqSum(s.unb, LAMBDA r : r.d = d /\ r.u = u)
BondedOf(s, d) == SetSum([u \in Users |-> s.bonded[u][d]], Users)
TotalBonded(s) == SetSum([d \in Denoms |-> BondedOf(s, d)], Denoms)

\* funds : sequence of [d, amt] sent with the message; the asset argument is (d, amt)
BondChecks(s, u, d, amt, funds) ==
  << <<"C08.bond.whitelisted-native-only", d \in s.white>>,
     <<"C08.bond.funds=amount", Len(funds) = 1 /\ funds[1].d = d /\ funds[1].amt = amt /\ Zero \prec amt>> >>
BondNext(s, u, d, amt) ==
  [s EXCEPT !.bonded[u][d] = @ ++ amt, !.cbal[d] = @ ++ amt, !.w[u][d] = @ -- amt]

UnbondChecks(s, u, d, amt) ==
  << <<"C08.unbond.at-most-bonded", Zero \prec amt /\ amt \preceq s.bonded[u][d]>> >>
UnbondNext(s, u, d, amt) ==
  [s EXCEPT !.bonded[u][d] = @ -- amt, !.unb = Append(@, [u |-> u, d |-> d, t |-> s.now, amt |-> amt])]

WithdrawChecks(s, u, d, paid) ==
  << <<"C08.withdraw.pays-exactly-the-matured-unbondings", paid = Payable(s, u, d)>>,
     <<"C08.withdraw.something-matured", Zero \prec Payable(s, u, d)>> >>
WithdrawNext(s, u, d, paid) ==
  LET page == Page(s, u, d)
      gone(r) == r.u = u /\ r.d = d /\ Matured(s, r) /\ \E i \in 1 .. Len(page) : page[i] = r
  IN [s EXCEPT !.unb = SelectSeq(@, LAMBDA r : ~gone(r)), !.cbal[d] = @ -- paid, !.w[u][d] = @ ++ paid]

TickNext(s, dt) == [s EXCEPT !.now = @ ++ dt]

StateChecks(s) ==
  << <<"C08.balance=bonded+unbonding", \A d \in Denoms : s.cbal[d] = BondedOf(s, d) ++ PendingOf(s, d)>>,
     <<"C08.nonnegative", \A u \in Users, d \in Denoms : Zero \preceq s.bonded[u][d] /\ Zero \preceq s.w[u][d]>>,
     <<"C08.only-whitelisted-bonded", \A u \in Users, d \in Denoms \ s.white : s.bonded[u][d] = Zero>> >>
=============================================================================
