------------------------------- MODULE Access -------------------------------
(* Who may perform which privileged operation (C16).  The policy table below  *)
(* is the reviewed artefact: for every privileged ExecuteMsg variant of every *)
(* contract, the kind of principal that is authorised.  Everything not listed *)
(* is permissionless and not judged by C16.                                   *)
EXTENDS Sequences, FiniteSets, TLC

Roles == {"owner", "newowner", "factory", "sibling", "user", "self", "distributor", "vault"}

\* kind of authorisation: "owner" = the contract's configured owner / admin (for children: their
\* factory, role "factory"), "self" = the contract itself, or a designated contract
Policy ==
  << <<"pair", "update_config", "owner">>,
     <<"trio", "update_config", "owner">>,
     <<"vault", "update_config", "owner">>,
     <<"vault", "callback", "self">>,
     <<"pool_factory", "update_config", "owner">>,
     <<"pool_factory", "add_native_token_decimals", "owner">>,
     <<"pool_factory", "create_pair", "owner">>,
     <<"pool_factory", "create_trio", "owner">>,
     <<"pool_factory", "migrate_pair", "owner">>,
     <<"pool_factory", "migrate_trio", "owner">>,
     <<"pool_factory", "remove_pair", "owner">>,
     <<"pool_factory", "remove_trio", "owner">>,
     <<"pool_factory", "update_pair_config", "owner">>,
     <<"pool_factory", "update_trio_config", "owner">>,
     <<"pool_router", "add_swap_routes", "owner">>,
     <<"pool_router", "remove_swap_routes", "owner">>,
     <<"pool_router", "execute_swap_operation", "self">>,
     <<"pool_router", "assert_minimum_receive", "self">>,
     <<"incentive_factory", "create_incentive", "owner">>,
     <<"incentive_factory", "update_config", "owner">>,
     <<"incentive_factory", "migrate_incentives", "owner">>,
     <<"frontend_helper", "update_config", "owner">>,
     <<"fee_collector", "update_config", "owner">>,
     <<"fee_collector", "forward_fees", "distributor">>,
     <<"fee_distributor", "update_config", "owner">>,
     <<"whale_lair", "update_config", "owner">>,
     <<"vault_factory", "create_vault", "owner">>,
     <<"vault_factory", "migrate_vaults", "owner">>,
     <<"vault_factory", "remove_vault", "owner">>,
     <<"vault_factory", "update_config", "owner">>,
     <<"vault_factory", "update_vault_config", "owner">>,
     <<"vault_router", "update_config", "owner">>,
     <<"vault_router", "next_loan", "vault">>,
     <<"vault_router", "complete_loan", "self">>,
     <<"epoch_manager", "add_hook", "owner">>,
     <<"epoch_manager", "remove_hook", "owner">>,
     <<"epoch_manager", "update_config", "owner">> >>

\* variants for which the harness has a payload that is valid in the prepared world, so that an
\* authorised call must succeed ("the new owner gains these rights" is judged on these)
Positive ==
  { <<"pair", "update_config">>, <<"trio", "update_config">>, <<"vault", "update_config">>, <<"vault", "callback">>,
    <<"pool_factory", "update_config">>, <<"pool_factory", "add_native_token_decimals">>,
    <<"pool_factory", "create_pair">>, <<"pool_factory", "create_trio">>, <<"pool_factory", "remove_pair">>,
    <<"pool_factory", "remove_trio">>, <<"pool_factory", "update_pair_config">>, <<"pool_factory", "update_trio_config">>,
    <<"pool_router", "add_swap_routes">>, <<"pool_router", "remove_swap_routes">>,
    <<"incentive_factory", "create_incentive">>, <<"incentive_factory", "update_config">>,
    <<"frontend_helper", "update_config">>, <<"fee_collector", "update_config">>, <<"fee_collector", "forward_fees">>,
    <<"fee_distributor", "update_config">>, <<"whale_lair", "update_config">>,
    <<"vault_factory", "create_vault">>, <<"vault_factory", "remove_vault">>, <<"vault_factory", "update_config">>,
    <<"vault_factory", "update_vault_config">>, <<"vault_router", "update_config">>,
    <<"epoch_manager", "add_hook">>, <<"epoch_manager", "remove_hook">>, <<"epoch_manager", "update_config">> }

Children == {"pair", "trio", "vault"}           \* owned by their factory
Contracts == {Policy[i][1] : i \in DOMAIN Policy}
VariantsOf(c) == {Policy[i][2] : i \in {j \in DOMAIN Policy : Policy[j][1] = c}}
KindOf(c, v) == LET i == CHOOSE j \in DOMAIN Policy : Policy[j][1] = c /\ Policy[j][2] = v IN Policy[i][3]
Listed(c, v) == \E j \in DOMAIN Policy : Policy[j][1] = c /\ Policy[j][2] = v

\* phase "before": original ownership; "after": ownership of c has been transferred to "newowner"
OwnerRole(c, phase) == IF phase = "after" THEN "newowner" ELSE IF c \in Children THEN "factory" ELSE "owner"
Authorised(c, v, phase) ==
  LET k == KindOf(c, v) IN IF k = "owner" THEN {OwnerRole(c, phase)} ELSE {k}
\* some roles denote the contract itself, depending on the contract under test
Canon(c, role) ==
  IF \/ (c = "vault" /\ role = "vault") \/ (c = "fee_distributor" /\ role = "distributor")
     \/ (c = "pool_factory" /\ role = "factory")
  THEN "self" ELSE role
IsAuthorised(c, v, role, phase) == Canon(c, role) \in Authorised(c, v, phase)

\* the rule judged on every recorded call
CallChecks(c, v, role, phase, res, unchanged) ==
  << <<"C16.unauthorised-call-rejected", (Listed(c, v) /\ ~IsAuthorised(c, v, role, phase)) => res # "ok">>,
     <<"C16.unauthorised-call-changes-nothing", (Listed(c, v) /\ ~IsAuthorised(c, v, role, phase)) => unchanged>>,
     <<"C16.authorised-call-accepted",
        (Listed(c, v) /\ IsAuthorised(c, v, role, phase) /\ <<c, v>> \in Positive) => res = "ok">>,
     <<"C16.rejected-call-changes-nothing", res # "ok" => unchanged>> >>
=============================================================================
