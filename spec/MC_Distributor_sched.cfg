SPECIFICATION Spec
CONSTANTS
  DEC = 100
  U128MAX = 100000
  Users = {"u1", "u2"}
  MaxEpochs = 4
  Inflows = {4}
  Grace0 = 1
  MaxGrace = 2
  SchedDepth = 6
  EmitSched = TRUE
CONSTRAINT Depth
INVARIANTS StateOK Emit
PROPERTY GraceOK
CHECK_DEADLOCK FALSE
