SPECIFICATION Spec
CONSTANTS
  Universe = {"A","B","C"}
  Arity = 1
  SchedDepth = 4
  Kind = "vault"
  CanRemove = TRUE
INVARIANTS OnePerSet ReCreate Emit
CHECK_DEADLOCK FALSE
