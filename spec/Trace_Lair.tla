----------------------------- MODULE Trace_Lair -----------------------------
(* Trace validation of real whale_lair executions against Lair.tla.           *)
EXTENDS Lair, LairWeight, Json, IOUtils

Rec == ndJsonDeserialize(IOEnv.TRACE)
VARIABLES l, st, wt
vars == <<l, st, wt>>

RECURSIVE FlatUnb(_, _)
FlatUnb(o, pairs) ==
  IF pairs = {} THEN <<>>
  ELSE LET p == CHOOSE x \in pairs : TRUE
           recs == o.unb[p[1]][p[2]].recs
       IN [i \in 1 .. Len(recs) |-> [u |-> p[1], d |-> p[2], t |-> recs[i].t, amt |-> recs[i].amt]]
          \o FlatUnb(o, pairs \ {p})

StOf(cfg, o) ==
  [ bonded |-> o.bonded, unb |-> FlatUnb(o, Users \X Denoms), cbal |-> o.cbal, w |-> o.w, now |-> o.now,
    period |-> cfg.period, white |-> cfg.white ]

\* the contract may keep one record per (owner, denom, block time); the specification keeps one per call:
\* compare them grouped by block time
GroupedEqual(exp, o) ==
  \A u \in Users, d \in Denoms :
    LET recs == o.unb[u][d].recs IN
    /\ o.unb[u][d].total = PendingOfUser(exp, u, d)
    /\ \A i \in 1 .. Len(recs) :
         recs[i].amt = SumAmt(SelectSeq(exp.unb, LAMBDA r : r.u = u /\ r.d = d /\ r.t = recs[i].t))

ObsChecks(exp, o) ==
  << <<"C08.obs.bonded", \A u \in Users, d \in Denoms : exp.bonded[u][d] = o.bonded[u][d]>>,
     <<"C08.obs.unbonding-records", GroupedEqual(exp, o)>>,
     <<"C08.obs.contract-balance", \A d \in Denoms : exp.cbal[d] = o.cbal[d]>>,
     <<"C08.obs.wallets", \A u \in Users, d \in Denoms : exp.w[u][d] = o.w[u][d]>>,
     <<"C08.obs.time", exp.now = o.now>> >>

QueryChecks(t, o) ==
  << <<"C08.query.total-bonded=sum", o.total = TotalBonded(t) /\ \A d \in Denoms : o.totalBy[d] = BondedOf(t, d)>>,
     <<"C08.query.withdrawable=payable", \A u \in Users, d \in Denoms : o.withdrawable[u][d] = Payable(t, u, d)>>,
     \* the pending unbondings read page by page are the pending unbondings (up to the 30 the suite reads)
     <<"C08.query.unbonding-pages=all-records",
        \A u \in Users, d \in Denoms : Len(o.unb[u][d].recs) < 30 => o.unb[u][d].paged = o.unb[u][d].recs>> >>

\* beyond the listed properties: the bonding weights the lair reports (the fee distributor splits an epoch by them)
\* never add up to more than the global weight, and the shares never to more than 100 %.  Names starting with "X." are
\* additional specification, reported like drift and never as a violation of a listed property.
RECURSIVE SumOver(_, _)
SumOver(f, S) == IF S = {} THEN Zero ELSE LET u == CHOOSE x \in S : TRUE IN f[u] ++ SumOver(f, S \ {u})
WeightChecks(o) ==
  LET bonders == { u \in Users : o.weights[u].res = "ok" } IN
  << <<"X.lair.weights-add-up-to-at-most-the-global-weight",
        bonders # {} => \A g \in { o.weights[u].global : u \in bonders } :
                          SumOver([u \in Users |-> IF u \in bonders THEN o.weights[u].weight ELSE Zero], Users) \preceq g>>,
     <<"X.lair.shares-add-up-to-at-most-100%",
        SumOver([u \in Users |-> o.weights[u].share], Users) \preceq DEC>> >>
\* the weight records as LairWeight.tla says they stand: wt = [b : [Users -> [Denoms -> rec]], g : rec, rate]
NoWt(rate) == [b |-> [u \in Users |-> [d \in Denoms |-> NoBond]], g |-> NoBond, rate |-> rate]
NextWt(ev) ==
  IF ev.res # "ok" \/ ev.ev \notin {"bond", "unbond"} THEN wt
  ELSE LET u == ev.actor  d == ev.args.d  a == ev.args.amt  b == wt.b[u][d] IN
       IF ev.ev = "bond"
       THEN [wt EXCEPT !.b[u][d] = BondRec(b, a, st.now, wt.rate), !.g = BondRec(wt.g, a, st.now, wt.rate)]
       ELSE [wt EXCEPT !.b[u][d] = UnbondRec(b, a, st.now, wt.rate),
                       !.g = GlobalUnbondRec(wt.g, a, Slash(b, a, st.now, wt.rate), st.now, wt.rate)]
\* ... and what the Weight query (no timestamp, no global index: "now") must then answer
WeightModelChecks(ev, o) ==
  LET w == NextWt(ev)
      mine(u) == SetSum([d \in Denoms |-> Grown(w.b[u][d], o.now, w.rate)], Denoms)
  IN << <<"X.lair.weight-query=LairWeight-model",
           \A u \in Users : o.weights[u].res = "ok" =>
              o.weights[u].weight = mine(u) /\ o.weights[u].global = Grown(w.g, o.now, w.rate)>> >>
Unchanged(ev, t) ==
  << <<"C08.rejected.unchanged", t = st>>, <<"C08.rejected.digest", ev.dpre = ev.dpost>> >>

Funds(ev) == [i \in 1 .. Len(ev.args.funds) |-> [d |-> ev.args.funds[i].d, amt |-> ev.args.funds[i].amt]]

EvChecks(ev, t) ==
  LET u == ev.actor IN
  (CASE ev.ev = "bond" ->
          LET d == ev.args.d  amt == ev.args.amt  fu == Funds(ev) IN
          IF ev.res = "ok" THEN BondChecks(st, u, d, amt, fu) \o ObsChecks(BondNext(st, u, d, amt), ev.obs)
          ELSE Unchanged(ev, t)
               \o << <<"drift.bond.valid-rejected",
                        ~(AllOk(BondChecks(st, u, d, amt, fu)) /\ amt \preceq st.w[u][d])>> >>
     [] ev.ev = "unbond" ->
          LET d == ev.args.d  amt == ev.args.amt IN
          IF ev.res = "ok" THEN UnbondChecks(st, u, d, amt) \o ObsChecks(UnbondNext(st, u, d, amt), ev.obs)
          ELSE Unchanged(ev, t) \o << <<"drift.unbond.valid-rejected", ~AllOk(UnbondChecks(st, u, d, amt))>> >>
     [] ev.ev = "withdraw" ->
          LET d == ev.args.d  paid == ev.out.paid IN
          IF ev.res = "ok"
          THEN WithdrawChecks(st, u, d, paid)
               \o << <<"C08.withdraw.attribute=transfer", ev.out.attr = paid>> >>
               \o ObsChecks(WithdrawNext(st, u, d, paid), ev.obs)
          ELSE Unchanged(ev, t)
               \o << <<"C08.withdraw.matured-rejected", Payable(st, u, d) = Zero>> >>
     [] ev.ev = "tick" -> ObsChecks(TickNext(st, ev.args.dt), ev.obs)
     [] OTHER -> << <<"TRACE.unknown-event", FALSE>> >>)
  \o StateChecks(t) \o QueryChecks(t, ev.obs) \o WeightChecks(ev.obs) \o WeightModelChecks(ev, ev.obs)

Report(ev, bad) ==
  IF bad = {} THEN TRUE
  ELSE PrintT(ToJson([k |-> "BAD", run |-> ev.run, step |-> IF ev.ev = "reset" THEN -1 ELSE ev.step,
                      line |-> l, ev |-> ev.ev, bad |-> bad]))

Init == l = 1 /\ st = [period |-> "none"] /\ wt = [rate |-> "none"]
Next ==
  /\ l <= Len(Rec)
  /\ LET ev == Rec[l] IN
       IF ev.ev = "reset"
       THEN LET t == StOf([period |-> ev.cfg.period, white |-> {ev.cfg.white[i] : i \in 1 .. Len(ev.cfg.white)}], ev.obs) IN
            Report(ev, Failed(StateChecks(t) \o QueryChecks(t, ev.obs))) /\ st' = t /\ wt' = NoWt(ev.cfg.growth)
       ELSE LET t == StOf(st, ev.obs) IN
            Report(ev, Failed(EvChecks(ev, t))) /\ st' = t /\ wt' = NextWt(ev)
  /\ l' = l + 1
Spec == Init /\ [][Next]_vars

Consumed ==
  /\ PrintT(ToJson([k |-> "CONSUMED", consumed |-> TLCGet("stats").diameter - 1, lines |-> Len(Rec)]))
  /\ TLCGet("stats").diameter - 1 = Len(Rec)
=============================================================================
