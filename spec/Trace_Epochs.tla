---------------------------- MODULE Trace_Epochs ----------------------------
(* Trace validation of the epoch manager / fee distributor clocks (C20).      *)
EXTENDS Epochs, Json, IOUtils

Rec == ndJsonDeserialize(IOEnv.TRACE)
VARIABLES l, st
vars == <<l, st>>

SeqToSet(sq) == {sq[i] : i \in 1 .. Len(sq)}
StOf(cfg, o) ==
  [ kind |-> cfg.kind, id |-> o.id, start |-> o.start, dur |-> cfg.dur, genesis |-> cfg.genesis, first |-> cfg.first, now |-> o.now,
    \* the epoch from which the current duration counts (the first one; after a re-configuration the one current then)
    \* every epoch seen so far with the start it was given (ghost)
    seen |-> LET prev == IF "seen" \in DOMAIN cfg THEN cfg.seen ELSE <<>> IN
             IF \E i \in DOMAIN prev : prev[i].id = o.id THEN prev ELSE Append(prev, [id |-> o.id, start |-> o.start]),
    anchor |-> IF "anchor" \in DOMAIN cfg THEN cfg.anchor
               ELSE [id |-> IF cfg.kind = "manager" THEN cfg.first ELSE One, start |-> cfg.genesis],
    hooks |-> SeqToSet(o.hooks),
    logs |-> [h \in AllHooks |-> [i \in 1 .. Len(o.logs[h]) |-> [id |-> o.logs[h][i].id, start |-> o.logs[h][i].start]]] ]

ObsChecks(exp, t) ==
  << <<"C20.obs.epoch-id", exp.id = t.id>>,
     <<"C20.obs.start-time", exp.start = t.start>>,
     <<"C20.obs.each-registered-hook-notified-exactly-once", \A h \in AllHooks : exp.logs[h] = t.logs[h]>>,
     <<"C16.obs.hooks", exp.hooks = t.hooks>>,
     <<"C20.obs.time", exp.now = t.now>> >>

Unchanged(ev, t) ==
  << <<"C20.rejected.unchanged", t = st>>, <<"C20.rejected.digest", ev.dpre = ev.dpost>> >>

\* the manager's answers for past epochs (Epoch { id }): every id from the first one up to the current one is known, under
\* its own id, with the start time it was created with
ByIdChecks(t, byid) ==
  << <<"C20.query.epoch-by-id=the-epoch-that-was-created",
        \A i \in DOMAIN byid :
          /\ byid[i].id = byid[i].asked
          \* (epochs older than the last re-configuration were created under another duration: not judged)
          /\ (t.anchor.id \preceq byid[i].id => byid[i].start = t.anchor.start ++ ((byid[i].id -- t.anchor.id) ** t.dur))>> >>
\* beyond the listed properties: the manager does not store past epochs, it derives them from the current one and the
\* CURRENT duration - after a re-configuration its answers for older epochs no longer say when those epochs started
PastEpochsX(t, byid) ==
  << <<"X.epochs.past-epochs-keep-their-start-after-a-reconfiguration",
        \A i \in DOMAIN byid : \A j \in DOMAIN t.seen : t.seen[j].id = byid[i].id => t.seen[j].start = byid[i].start>> >>
\* the admin re-configures the clock (C20: "the configured duration"; design rule: the configuration is the specification's
\* own - the duration in force is the one the last accepted update SET)
\* The distributor's message carries a genesis time too.  Before its first epoch that is the time the first epoch will
\* start at; once an epoch exists it says nothing any more - the next epoch starts where the current one ends.
ReconfigDur(ev) == ev.args.dur
Reconfigured(s0, s, ev) ==
  IF s.kind # "manager" /\ s.id = Zero
  THEN [s0 EXCEPT !.dur = ReconfigDur(ev), !.genesis = ev.args.genesis, !.anchor = [id |-> One, start |-> ev.args.genesis]]
  ELSE [s0 EXCEPT !.dur = ReconfigDur(ev), !.anchor = [id |-> s.id, start |-> s.start]]
ReconfigNext(s, ev) == Reconfigured(s, s, ev)
EvChecks(ev, t) ==
  (CASE ev.ev = "create" ->
          IF ev.res = "ok" THEN CreateChecks(st) \o ObsChecks(CreateNext(st), t)
          ELSE Unchanged(ev, t) \o << <<"C20.create.due-but-rejected", ~Due(st)>> >>
     [] ev.ev = "tick" -> ObsChecks(TickNext(st, ev.args.to), t)
     [] ev.ev = "reconfig" ->
          IF ev.res = "ok"
          THEN << <<"C16.config.admin-only", ev.actor = "owner">> >> \o ObsChecks(ReconfigNext(st, ev), t)
          ELSE Unchanged(ev, t) \o << <<"C16.config.by-admin-rejected", ev.actor # "owner">> >>
     [] ev.ev = "addhook" ->
          IF ev.res = "ok"
          THEN << <<"C16.hooks.admin-only", ev.actor = "owner">> >> \o ObsChecks(AddHookNext(st, ev.args.x), t)
          ELSE Unchanged(ev, t)
     [] ev.ev = "removehook" ->
          IF ev.res = "ok"
          THEN << <<"C16.hooks.admin-only", ev.actor = "owner">> >> \o ObsChecks(RemoveHookNext(st, ev.args.x), t)
          ELSE Unchanged(ev, t)
     [] OTHER -> << <<"TRACE.unknown-event", FALSE>> >>)
  \o StepChecks(st, t) \o ClockChecks(t) \o ByIdChecks(t, ev.obs.byid) \o PastEpochsX(t, ev.obs.byid)

Report(ev, bad) ==
  IF bad = {} THEN TRUE
  ELSE PrintT(ToJson([k |-> "BAD", run |-> ev.run, step |-> IF ev.ev = "reset" THEN -1 ELSE ev.step,
                      line |-> l, ev |-> ev.ev, bad |-> bad]))

Init == l = 1 /\ st = [kind |-> "none"]
Next ==
  /\ l <= Len(Rec)
  /\ LET ev == Rec[l] IN
       IF ev.ev = "reset" THEN Report(ev, Failed(ClockChecks(StOf(ev.cfg, ev.obs)) \o ByIdChecks(StOf(ev.cfg, ev.obs), ev.obs.byid))) /\ st' = StOf(ev.cfg, ev.obs)
       ELSE LET t0 == StOf(st, ev.obs)
                t == IF ev.ev = "reconfig" /\ ev.res = "ok"
                     THEN Reconfigured(t0, st, ev) ELSE t0
            IN Report(ev, Failed(EvChecks(ev, t))) /\ st' = t
  /\ l' = l + 1
Spec == Init /\ [][Next]_vars
Consumed ==
  /\ PrintT(ToJson([k |-> "CONSUMED", consumed |-> TLCGet("stats").diameter - 1, lines |-> Len(Rec)]))
  /\ TLCGet("stats").diameter - 1 = Len(Rec)
=============================================================================
