------------------------------- MODULE CpMath -------------------------------
(* Constant-product swap arithmetic (terraswap_pair::helpers::compute_swap,   *)
(* ConstantProduct arm) and the statement of C02.                             *)
EXTENDS Dec

\* fee triple f = [p |-> protocol, s |-> swap, b |-> burn] in decimal atomics
FeesValid(f) == /\ Zero \preceq f.p /\ Zero \preceq f.s /\ Zero \preceq f.b
                /\ (f.p ++ f.s ++ f.b) \prec DEC

CpGross(op, ak, off) == (ak ** off) // (op ++ off)

\* Implementation layer: what the code computes today (after the S1 repair the
\* spread subtraction saturates).  All components are reported before the
\* conversion to Uint128; Fits says whether that conversion succeeds.
CpSwap(op, ak, off, f) ==
  LET g == CpGross(op, ak, off)
      sf == MulFloor(g, f.s)
      pf == MulFloor(g, f.p)
      bf == MulFloor(g, f.b)
      sp == Monus(MulFloor(off, FromRatio(ak, op)), g)
  IN [gross |-> g, ret |-> ((g -- sf) -- pf) -- bf, sf |-> sf, pf |-> pf, bf |-> bf, spread |-> sp]

CpFits(r) == Fits128(r.ret) /\ Fits128(r.sf) /\ Fits128(r.pf) /\ Fits128(r.bf) /\ Fits128(r.spread)

\* Rule layer = the statement of C02 for one computed swap o = [ret, sf, pf, bf]
CpRules(op, ak, off, f, o) ==
  LET g == CpGross(op, ak, off) IN
  << <<"C02.sum=gross", (o.ret ++ o.sf ++ o.pf ++ o.bf) = g>>,
     <<"C02.swap_fee=floor", o.sf = MulFloor(g, f.s)>>,
     <<"C02.protocol_fee=floor", o.pf = MulFloor(g, f.p)>>,
     <<"C02.burn_fee=floor", o.bf = MulFloor(g, f.b)>>,
     <<"C02.ret<ask", o.ret \prec ak>>,
     <<"C02.nonneg", Zero \preceq o.ret /\ Zero \preceq o.sf /\ Zero \preceq o.pf /\ Zero \preceq o.bf>> >>

\* there and straight back: reserves after the first swap per C01's conservation
BackReserves(op, ak, off, o) == [op |-> ((ak -- o.ret) -- o.pf) -- o.bf, ak |-> op ++ off, off |-> o.ret]
=============================================================================
