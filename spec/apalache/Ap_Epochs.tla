----------------------------- MODULE Ap_Epochs -----------------------------
(* Unbounded argument (Apalache, inductive invariant) for the epoch-manager   *)
(* clock of Epochs.tla over the integers: for ANY duration, genesis and time  *)
(* steps, creating an epoch only when Due keeps                                *)
(*   start = Genesis + id * Dur,  start <= now,  id >= 0                       *)
(* i.e. the clock never runs ahead of time and counts whole durations.         *)
(* Same Due / NextStart as Epochs.tla (manager kind), written on Int.          *)
EXTENDS Integers

CONSTANTS
  \* @type: Int;
  Dur,
  \* @type: Int;
  Genesis

VARIABLES
  \* @type: Int;
  id,
  \* @type: Int;
  start,
  \* @type: Int;
  now,
  \* @type: Int;
  k      \* ghost: id * Dur, kept linear for the solver

ConstInit == Dur \in Nat /\ Dur >= 1 /\ Genesis \in Nat

Due == start <= now /\ Dur <= now - start
Init == id = 0 /\ start = Genesis /\ k = 0 /\ now \in Nat /\ now >= Genesis
Create == Due /\ id' = id + 1 /\ start' = start + Dur /\ k' = k + Dur /\ now' = now
Tick == \E t \in Nat : t >= now /\ now' = t /\ UNCHANGED <<id, start, k>>
Next == Create \/ Tick

IndInv == /\ id \in Nat /\ start \in Nat /\ now \in Nat /\ k \in Nat
          /\ start = Genesis + k /\ start <= now
\* what users rely on: the current epoch has started, and (step property) ids move by one, start by one duration
Safety == start <= now
=============================================================================
