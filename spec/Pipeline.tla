------------------------------- MODULE Pipeline -------------------------------
(* Fee pipeline at epoch creation (C10): distributor.NewEpoch -> collector.ForwardFees *)
(* -> collect (vaults, pools) -> aggregate (vaults, pools) -> take rate -> transfer to  *)
(* the distributor -> roll-over.  Assets are names; WHALE is the distribution asset.    *)
(* The rules below are the property's clauses over the pre- and post-observation of one *)
(* NewEpoch transaction; the swap proceeds themselves are outcomes of the pools (C01,   *)
(* C14) and enter only through conservation.                                            *)
EXTENDS Dec, Sequences, FiniteSets, TLC

CONSTANTS Assets,        \* all assets in play (strings)
          Dist,          \* the distribution asset
          PoolKids,      \* children whose ledger is collected when above COLLECT_MIN ("pair1", ...)
          VaultKids,     \* children whose whole pending ledger is collected
          COLLECT_MIN    \* 1000

Kids == PoolKids \cup VaultKids
(* observation o: pending : [Kids -> [Assets -> Num]] ; alltime : [Kids -> [Assets -> Num]] ;
                  col, dao, supply : [Assets -> Num] ; dist : Num (distributor's balance of Dist) ;
                  take : [active, rate, dao_set] ; history : Num (take recorded for the new epoch id)       *)

Collectable(o, k, a) ==
  IF k \in VaultKids THEN o.pending[k][a] ELSE IF COLLECT_MIN \prec o.pending[k][a] THEN o.pending[k][a] ELSE Zero
SetSum(f, D) == LET RECURSIVE go(_)
                    go(X) == IF X = {} THEN Zero ELSE LET x == CHOOSE y \in X : TRUE IN f[x] ++ go(X \ {x})
                IN go(D)
CollectedInto(o, a, kids) == SetSum([k \in kids |-> Collectable(o, k, a)], kids)
TakeActive(o) == o.take.active /\ o.take.rate # Zero /\ o.take.dao_set

\* s = observation before, t = after a successful NewEpoch; kids = children the property speaks about
EpochChecks(s, t, kids) ==
  LET received == t.dist -- s.dist
      daoGain == t.dao[Dist] -- s.dao[Dist]
      W == (daoGain ++ received) ++ t.col[Dist]          \* collector's balance when the take rate was applied
  IN
  << <<"C10.pending-fees-collected",
        \* what stays pending afterwards is only what was not collectable plus fees charged by the aggregation swaps
        \A k \in kids, a \in Assets :
          (t.pending[k][a] -- (t.alltime[k][a] -- s.alltime[k][a])) = (s.pending[k][a] -- Collectable(s, k, a))>>,
     <<"C10.other-assets-swapped-or-untouched",
        \A a \in Assets \ {Dist} : t.col[a] = Zero \/ t.col[a] = s.col[a] ++ CollectedInto(s, a, kids)>>,
     <<"C10.dao-receives-exactly-floor(take-rate*balance)",
        daoGain = IF TakeActive(s) THEN MulFloor(W, s.take.rate) ELSE Zero>>,
     <<"C10.take-rate-recorded-per-epoch", t.history = daoGain>>,
     <<"C10.dao-gets-nothing-else", \A a \in Assets \ {Dist} : t.dao[a] = s.dao[a]>>,
     <<"C10.everything-else-goes-to-the-distributor", Zero \prec W => t.col[Dist] = Zero>>,
     <<"C10.conservation", \A a \in Assets : t.supply[a] = s.supply[a]>> >>
=============================================================================
