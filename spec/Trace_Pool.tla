----------------------------- MODULE Trace_Pool -----------------------------
(* Trace validation of real terraswap_pair executions against Pool.tla.       *)
(* Input: ndjson written by `wwv pool` (one event per top-level message).     *)
(* For every event the rule layer of the matching Pool action is evaluated on *)
(* the specification state and the logged outcome, the next state computed by *)
(* the specification (conservation) is compared with the observed post-state, *)
(* and the global properties are evaluated on the observed step.  A failing   *)
(* check is printed ("BAD", run, step, line, event, {names}) and validation   *)
(* continues from the observed state, so one pass reports every              *)
(* non-conforming step.  Names starting with "drift." are not violations.     *)
EXTENDS Pool, Stable, Json, IOUtils

Rec == ndJsonDeserialize(IOEnv.TRACE)

VARIABLES l,      \* next line of the trace
          st,     \* specification state (Pool's state record)
          last,   \* summary of the previous event (for deposit-then-withdraw)
          pc      \* constants of the pool under test: amplification and asset decimals (stableswap pools)

vars == <<l, st, last, pc>>

StOf(ptype, o) ==
  [ bal |-> o.bal, fee |-> o.fee, feeAll |-> o.feeAll, burned |-> o.burned, col |-> o.col,
    circ |-> o.circ, S |-> o.S, lp |-> o.lp, w |-> o.w, fees |-> o.fees, tog |-> o.tog,
    ptype |-> ptype, res |-> o.res ]     \* res: the reserves the Pool query REPORTS

NoLast == [ev |-> "none"]

ObsChecks(exp, o) ==
  << <<"C01.obs.balance", exp.bal = o.bal>>,
     <<"C01.obs.lp-supply", exp.S = o.S>>,
     <<"C01.obs.lp-holdings", \A h \in Holders : exp.lp[h] = o.lp[h]>>,
     <<"C01.obs.wallets", \A u \in Users : exp.w[u] = o.w[u]>>,
     <<"C07.obs.pending-ledger", exp.fee = o.fee>>,
     <<"C07.obs.alltime-ledger", exp.feeAll = o.feeAll>>,
     <<"C07.obs.burned-ledger", exp.burned = o.burned>>,
     <<"C07.obs.collector", exp.col = o.col>>,
     <<"C07.obs.circulating", exp.circ = o.circ>>,
     <<"C18.obs.fees", exp.fees = o.fees>>,
     <<"C17.obs.toggles", exp.tog = o.tog>> >>

QueryChecks(o) ==
  << <<"C01.query.reserves+owed<=held",
        \A a \in 1 .. 2 : o.res[a] # "err" /\ (o.res[a] ++ o.fee[a]) \preceq o.bal[a]>>,
     <<"C01.query.total_share", o.Sq = o.S>>,
     <<"C18.fees.valid", FeesValid(o.fees)>> >>

\* C01 speaks of the value backing one LP token as computed from the REPORTED reserves (Pool query)
ReportedValue(s, t) ==
  LET ok(r) == r[1] # "err" /\ r[2] # "err" IN
  << <<"C01.lpvalue(reported-reserves)",
        (s.ptype = "cp" /\ Zero \prec s.S /\ Zero \prec t.S /\ ok(s.res) /\ ok(t.res)) =>
          (((t.res[1] ** t.res[2]) ** s.S) ** s.S) \succeq (((s.res[1] ** s.res[2]) ** t.S) ** t.S)>>,
     <<"drift.query.reported-reserves=balance-minus-owed-fees",
        ok(t.res) => \A a \in 1 .. 2 : t.res[a] ++ t.fee[a] = t.bal[a]>> >>
\* what the fee collector was paid by this event other than through a fee collection: the proceeds of a swap addressed to it
GiftOf(ev) ==
  IF ev.ev = "swap" /\ ev.res = "ok" /\ ev.args.to = "collector"
  THEN [a \in 1 .. 2 |-> IF a = Oth(ev.args.dir) THEN ev.out.ret ELSE Zero] ELSE <<Zero, Zero>>
Globals(s, t, o, gift) == StateChecks(t) \o StepChecksG(s, t, gift) \o QueryChecks(o) \o ReportedValue(s, t)

Unchanged(ev, t) ==
  << <<"C01.rejected.unchanged", t = st>>,
     <<"C01.rejected.digest", ev.dpre = ev.dpost>> >>

Gross(o) == ((o.ret ++ o.sf) ++ o.pf) ++ o.bf

\* ---- two-asset stableswap pools (C03): the curve is Stable.tla's, on reserves normalised to 18 decimals ----------
InDomain(s) == \A a \in 1 .. 2 : Pow(N(10), pc.dec[a]) \preceq R(s, a)      \* one whole token of each asset
NormD(s) == Dstar2(Norm(R(s, 1), pc.dec[1]), Norm(R(s, 2), pc.dec[2]), pc.amp)
CoarseUnit == Pow(N(10), 18 - (IF pc.dec[1] < pc.dec[2] THEN pc.dec[1] ELSE pc.dec[2]))
StableSwapClauses(ev) ==
  IF st.ptype # "stable" \/ ~InDomain(st) THEN <<>>
  ELSE LET dir == ev.args.dir  oth == Oth(dir)  o == ev.out  g == Gross(o)
           X1 == Norm(R(st, dir) ++ ev.args.offer, pc.dec[dir])
           D == NormD(st)
       IN << <<"C03.swap.proceeds<=ask-reserve", g \preceq R(st, oth)>>,
             <<"C03.swap.ask-reserve-not-below-the-curve",
                g \preceq R(st, oth) =>
                  (Norm(R(st, oth) -- g, pc.dec[oth]) ++ Dust2(X1, D, pc.amp, pc.dec[oth])) \succeq Ystar2(X1, D, pc.amp)>>,
             <<"C03.swap.fees=floor(share*gross)",
                o.sf = MulFloor(g, st.fees.s) /\ o.pf = MulFloor(g, st.fees.p) /\ o.bf = MulFloor(g, st.fees.b)>> >>
StableProvideClauses(ev, t) ==
  IF st.ptype # "stable" \/ st.S = Zero \/ ~InDomain(st) THEN <<>>
  ELSE LET A0 == Norm(R(st, 1), pc.dec[1])  B0 == Norm(R(st, 2), pc.dec[2])
           A1 == Norm(R(st, 1) ++ ev.args.d[1], pc.dec[1])  B1 == Norm(R(st, 2) ++ ev.args.d[2], pc.dec[2])
           suffix == IF pc.dec[1] # pc.dec[2] THEN "(unequal-decimals)" ELSE ""
           e0 == (N(16) ++ Lopsided(NMax(A0, B0), NMin(A0, B0))) ** CoarseUnit
           e1 == (N(16) ++ Lopsided(NMax(A1, B1), NMin(A1, B1))) ** CoarseUnit
       IN MintChecks("C03", suffix, ev.out.minted, st.S, Dstar2(A0, B0, pc.amp), Dstar2(A1, B1, pc.amp), e0, e1)
StableWithdrawClauses(t) ==
  IF st.ptype # "stable" \/ ~InDomain(st) \/ ~InDomain(t) THEN <<>>
  ELSE << <<"C03.withdraw.invariant-per-LP-never-falls", (NormD(st) ** t.S) \preceq ((NormD(t) ++ One) ** st.S)>> >>

ProvideEv(ev, t) ==
  LET d == ev.args.d  u == ev.actor  slip == ev.args.slip
      live == Zero \prec st.S /\ Zero \prec R(st, 1) /\ Zero \prec R(st, 2)
  IN IF ev.res = "ok"
     THEN LET m == ev.out.minted IN
          ProvideChecks(st, u, d, ev.args.recv, m)
          \o << <<"C15.deposit.tolerance<=1", (slip = "none" \/ st.S = Zero) \/ slip \preceq DEC>>,
                <<"C15.deposit.bound",
                   (slip # "none" /\ slip \preceq DEC /\ live /\ st.ptype = "cp") => SlipBoundCp(st, d, slip)>>,
                <<"C15.deposit.bound(stableswap)",
                   (slip # "none" /\ slip \preceq DEC /\ live /\ st.ptype = "stable") =>
                     StSlipBound(R(st, 1) ++ R(st, 2), st.S, d[1] ++ d[2], m, slip)>>,
                <<"drift.provide.minted",
                   (st.ptype = "cp" /\ (st.S = Zero \/ live)) => m = ImplMintCp(st, d)>> >>
          \o StableProvideClauses(ev, t)
          \o ObsChecks(ProvideNext(st, u, d, ev.args.recv, m), ev.obs)
     ELSE Unchanged(ev, t)
          \o << <<"C15.deposit.inside-rejected",
                   ~( /\ slip # "none" /\ slip \preceq DEC /\ live /\ st.ptype = "cp" /\ st.tog.d
                      /\ \A a \in 1 .. 2 : Zero \prec d[a] /\ d[a] \preceq st.w[u][a]
                      /\ Zero \prec ImplMintCp(st, d)
                      /\ SlipInsideCp(st, d, slip) )>> >>

WithdrawEv(ev, t) ==
  LET amt == ev.args.amt  u == ev.actor  out == ev.out.refund
  IN IF ev.res = "ok"
     THEN WithdrawChecks(st, u, amt, out)
          \o << <<"C01.deposit-then-withdraw",
                   \* (asset by asset only in a constant-product pool: a stableswap deposit may be one-sided and is paid
                   \*  back in pool proportion; its value rule is C03's mint and withdrawal clauses)
                   ( /\ st.ptype = "cp" /\ last.ev = "provide" /\ last.actor = u /\ last.recv = u /\ last.minted = amt
                     /\ (Zero \prec last.preS \/ last.preBal = <<Zero, Zero>>) )
                   => \A a \in 1 .. 2 : out[a] \preceq last.d[a]>>,
                <<"drift.withdraw.refund", Zero \prec st.S => out = ImplRefund(st, amt)>> >>
          \o StableWithdrawClauses(t)
          \o ObsChecks(WithdrawNext(st, u, amt, out), ev.obs)
     ELSE Unchanged(ev, t)

\* the Simulation query is an observation point of C02 in its own right: whatever happens to the swap itself, a quote
\* given for a live constant-product pool follows the formula on the reserves the pool reports
SimFormula(ev) ==
  LET dir == ev.args.dir  sim == ev.pre.sim
      live == Zero \prec st.S /\ Zero \prec R(st, 1) /\ Zero \prec R(st, 2)
  IN IF st.ptype = "cp" /\ live /\ sim.res = "ok" /\ Zero \prec ev.args.offer
     THEN << <<"C02.simulation.follows-the-formula-on-the-reported-reserves",
                AllOk(CpRules(R(st, dir), R(st, Oth(dir)), ev.args.offer, st.fees, sim))>> >>
     ELSE <<>>

\* beyond the listed properties: the reverse quote.  Asked what must be offered to receive `ask`, the pair names an offer;
\* the forward quote for that offer should promise at least `ask` (one unit of rounding allowed), and not need more than the
\* offer the forward quote started from plus one
ReverseSimX(ev) ==
  LET r == ev.pre.rsim IN
  IF r.res # "ok" \/ r.fwd_res # "ok" THEN <<>>
  ELSE << <<"X.reverse-simulation.the-offer-it-names-buys-the-ask", r.ask \preceq (r.fwd ++ One)>>,
          <<"X.reverse-simulation.names-no-more-than-the-offer-that-was-quoted", r.offer \preceq (ev.args.offer ++ One)>> >>
SwapEv(ev, t) ==
  LET dir == ev.args.dir  offer == ev.args.offer  u == ev.actor  sim == ev.pre.sim
      ms == ev.args.ms  bp == ev.args.bp
      live == Zero \prec st.S /\ Zero \prec R(st, 1) /\ Zero \prec R(st, 2)
  IN SimFormula(ev) \o ReverseSimX(ev) \o
     \* a cw20 offer named in the direct swap message pays nothing in: it must be refused (an accepted one is judged as a swap)
     (IF ev.args.wrong_path THEN << <<"C02.swap.only-against-tokens-paid-in", ev.res # "ok">> >> ELSE <<>>) \o
     \* ... and a native offer that attaches something else than the amount it declares (nothing, less, more, the other asset)
     (IF ev.args.funds # "exact" THEN << <<"C01.swap.native-offer-paid-in-as-declared", ev.res # "ok">> >> ELSE <<>>) \o
     IF ev.res = "ok"
     THEN LET o == ev.out  g == Gross(o) IN
          SwapChecks(st, dir, offer, o)
          \o << <<"C14.simulation.ok", sim.res = "ok">>,
                <<"C14.simulation=execution",
                   sim.res = "ok" =>
                     /\ sim.ret = o.ret /\ sim.sf = o.sf /\ sim.pf = o.pf /\ sim.bf = o.bf
                     /\ sim.spread = o.spread>>,
                \* what the ledger records as charged is the configured protocol share of what the trade bought, in every
                \* pool type (the ledger clauses themselves only tie the ledger to the amount the swap reports)
                <<"C07.swap.recorded-protocol-fee=floor(protocol-share*gross)",
                   t.fee[Oth(dir)] -- st.fee[Oth(dir)] = MulFloor(g, st.fees.p)>>,
                <<"C15.swap.bound", SpreadBound(offer, g, o.spread, ms, bp)>>,
                <<"C15.swap.spread-not-understated",
                   (live /\ st.ptype = "cp") => SpreadNotUnderstated(st, dir, offer, g, o.spread)>>,
                <<"drift.swap",
                   (live /\ st.ptype = "cp") =>
                     LET i == ImplSwap(st, dir, offer) IN
                       i.ret = o.ret /\ i.sf = o.sf /\ i.pf = o.pf /\ i.bf = o.bf /\ i.spread = o.spread>> >>
          \o StableSwapClauses(ev)
          \o ObsChecks(SwapNext(st, u, dir, offer, o, ev.args.to), ev.obs)
     ELSE Unchanged(ev, t)
          \o << <<"C15.swap.inside-rejected",
                   ~( /\ ~ev.args.wrong_path /\ ev.args.funds = "exact" /\ sim.res = "ok" /\ live /\ st.tog.s /\ Zero \prec offer /\ offer \preceq st.w[u][dir]
                      /\ SpreadInside(offer, Gross(sim), sim.spread, ms, bp) )>> >>

CollectEv(ev, t) ==
  IF ev.res = "ok"
  THEN CollectChecks(st, ev.out.sent)
       \o << <<"C07.collect.reserves-unchanged", \A a \in 1 .. 2 : R(t, a) = R(st, a)>>,
             <<"drift.collect", ev.out.sent = ImplCollect(st)>> >>
       \o ObsChecks(CollectNext(st, ev.out.sent), ev.obs)
  ELSE Unchanged(ev, t)

SetFeesEv(ev, t) ==
  LET f == [p |-> ev.args.p, s |-> ev.args.s, b |-> ev.args.b] IN
  IF ev.res = "ok"
  THEN << <<"C18.setfees.accepted-valid", FeesValid(f)>>,
          <<"C16.setfees.owner-only", ev.actor = "owner">> >>
       \o ObsChecks(SetFeesNext(st, f), ev.obs)
  ELSE Unchanged(ev, t)
       \o << <<"C18.setfees.valid-by-owner-rejected", ~(ev.actor = "owner" /\ FeesValid(f))>> >>

\* the three pause switches (C17), always set as a triple through the factory
SetTogEv(ev, t) ==
  LET g == [d |-> ev.args.d, w |-> ev.args.w, s |-> ev.args.s] IN
  IF ev.res = "ok"
  THEN << <<"C16.settog.owner-only", ev.actor = "owner">> >> \o ObsChecks([st EXCEPT !.tog = g], ev.obs)
  ELSE Unchanged(ev, t) \o << <<"C17.settog.by-owner-rejected", ev.actor # "owner">> >>
\* a paused operation is refused whatever the pool's assets are, and only its own switch pauses it
TogChecks(ev) ==
  LET mine == CASE ev.ev = "provide" -> st.tog.d [] ev.ev \in {"withdraw", "wdirect"} -> st.tog.w
                [] ev.ev = "swap" -> st.tog.s [] OTHER -> TRUE IN
  << <<"C17.accepted-only-while-its-switch-is-on", ev.res = "ok" => mine>>,
     <<"C17.refused-as-disabled-only-by-its-own-switch",
        (ev.ev \in {"provide", "withdraw", "swap"} /\ ev.res # "ok" /\ ev.disabled) => ~mine>> >>

DonateEv(ev, t) ==
  IF ev.res = "ok" THEN ObsChecks(DonateNext(st, ev.actor, ev.args.a, ev.args.x), ev.obs)
  ELSE Unchanged(ev, t)

LpTransferEv(ev, t) ==
  IF ev.res = "ok" THEN ObsChecks(LpTransferNext(st, ev.actor, ev.args.to, ev.args.x), ev.obs)
  ELSE Unchanged(ev, t)

EvChecks(ev, t) ==
  (CASE ev.ev = "provide" -> ProvideEv(ev, t)
     [] ev.ev = "withdraw" -> WithdrawEv(ev, t)
     \* the direct withdrawal message: with a cw20 LP token (the default build) nothing is handed in that could be burnt,
     \* so it must be refused; if it is accepted it is judged as the withdrawal of that many LP tokens by the caller
     [] ev.ev = "wdirect" -> WithdrawEv(ev, t) \o << <<"C01.withdraw.only-against-LP-tokens", ev.res # "ok">> >>
     [] ev.ev = "swap" -> SwapEv(ev, t)
     [] ev.ev = "collect" -> CollectEv(ev, t)
     [] ev.ev = "setfees" -> SetFeesEv(ev, t)
     [] ev.ev = "settog" -> SetTogEv(ev, t)
     [] ev.ev = "donate" -> DonateEv(ev, t)
     [] ev.ev = "lptransfer" -> LpTransferEv(ev, t)
     [] OTHER -> << <<"TRACE.unknown-event", FALSE>> >>)
  \o Globals(st, t, ev.obs, GiftOf(ev)) \o TogChecks(ev)

ResetChecks(t, o) ==
  << <<"C17.fresh.all-enabled", t.tog.d /\ t.tog.w /\ t.tog.s>>,
     <<"C01.fresh.empty", t.S = Zero /\ t.fee = <<Zero, Zero>>>> >> \o StateChecks(t) \o QueryChecks(o)

Report(ev, bad) ==
  IF bad = {} THEN TRUE
  ELSE PrintT(ToJson([k |-> "BAD", run |-> ev.run, step |-> IF ev.ev = "reset" THEN -1 ELSE ev.step,
                      line |-> l, ev |-> ev.ev, bad |-> bad]))

Init == l = 1 /\ st = [ptype |-> "none"] /\ last = NoLast /\ pc = [amp |-> Zero, dec |-> <<6, 6>>]

Next ==
  /\ l <= Len(Rec)
  /\ LET ev == Rec[l] IN
       IF ev.ev = "reset"
       THEN LET t == StOf(ev.cfg.ptype, ev.obs) IN
            /\ Report(ev, Failed(ResetChecks(t, ev.obs)))
            /\ st' = t /\ last' = NoLast
            /\ pc' = [amp |-> IF ev.cfg.ptype = "stable" THEN ev.cfg.amp ELSE Zero, dec |-> ev.cfg.dec]
       ELSE LET t == StOf(st.ptype, ev.obs) IN
            /\ Report(ev, Failed(EvChecks(ev, t)))
            \* the specification resynchronises on what it observes - except for the configured fees, which it owns: the
            \* triple in force is the one the last accepted update SET, whatever the contract stored (a stale share kept
            \* by an update would otherwise be taken for the configuration and every charge judged against it)
            /\ st' = [t EXCEPT !.fees = IF ev.ev = "setfees" /\ ev.res = "ok"
                                        THEN [p |-> ev.args.p, s |-> ev.args.s, b |-> ev.args.b] ELSE st.fees]
            /\ last' = IF ev.ev = "provide" /\ ev.res = "ok"
                       THEN [ev |-> "provide", actor |-> ev.actor, recv |-> ev.args.recv, d |-> ev.args.d,
                             minted |-> ev.out.minted, preS |-> st.S, preBal |-> st.bal]
                       ELSE NoLast
            /\ pc' = pc
  /\ l' = l + 1

Spec == Init /\ [][Next]_vars

\* acceptance: every line was consumed (one state per line plus the initial state)
Consumed ==
  /\ PrintT(ToJson([k |-> "CONSUMED", consumed |-> TLCGet("stats").diameter - 1, lines |-> Len(Rec)]))
  /\ TLCGet("stats").diameter - 1 = Len(Rec)
=============================================================================
