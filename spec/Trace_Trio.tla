----------------------------- MODULE Trace_Trio -----------------------------
(* Trace validation of the real three-asset pool (behind the real factory)  *)
(* against Trio.tla (C04; simulation clause of C14).                         *)
EXTENDS Trio, Json, IOUtils

Rec == ndJsonDeserialize(IOEnv.TRACE)
VARIABLES l, st, fees
vars == <<l, st, fees>>

StOf(o) == [init |-> o.init, future |-> o.future, start |-> o.start, stop |-> o.stop, height |-> o.height,
            res |-> o.res, S |-> o.S, fee |-> o.fee, bal |-> o.bal,
            feeAll |-> o.feeAll, burned |-> o.burned, col |-> o.col, circ |-> o.circ, tog |-> o.tog]

\* a paused operation is refused on every entry path (direct message, cw20 hook), and only its own switch pauses it; the
\* switches only move by "settog"
TogChecks(ev, t) ==
  LET mine == CASE ev.ev = "provide" -> st.tog.d [] ev.ev \in {"withdraw", "wdirect"} -> st.tog.w
                [] ev.ev = "swap" -> st.tog.s [] OTHER -> TRUE IN
  << <<"C17.accepted-only-while-its-switch-is-on", ev.res = "ok" => mine>>,
     <<"C17.refused-as-disabled-only-by-its-own-switch",
        (ev.ev \in {"provide", "withdraw", "swap"} /\ ev.res # "ok" /\ ev.disabled) => ~mine>>,
     <<"C17.switches-only-move-by-their-update", ev.ev = "settog" \/ t.tog = st.tog>> >>
HarnessAmp(ev) == << <<"TRACE.harness-amp=AmpAt(config,height)", ev.args.amp = AmpNow(st)>> >>

EvChecks(ev, t) ==
  (CASE ev.ev = "ramp" -> RampChecks(st, ev.actor = "owner", ev.args.fa, ev.args.fb, ev.res = "ok", t)
     [] ev.ev = "tick" -> Untouched(st, [t EXCEPT !.height = st.height])
                          \o << <<"TRACE.tick-advances-height", t.height = st.height ++ ev.args.blocks>> >>
     [] ev.ev = "swap" ->
          (IF ev.args.wrong_path THEN << <<"C04.swap.only-against-tokens-paid-in", ev.res # "ok">> >> ELSE <<>>) \o
          IF ev.res = "ok"
          THEN SwapChecks(st, fees, ev.args.i, ev.args.j, ev.args.k, ev.args.offer, ev.args.curve, ev.args.out, t)
               \o SimChecks(ev.args.sim, ev.args.out) \o HarnessAmp(ev) \o SwapLedgerChecks(st, ev.args.j, ev.args.out, t)
               \o << <<"C07.trio.recorded-protocol-fee=floor(protocol-share*gross)",
                        t.feeAll[ev.args.j] -- st.feeAll[ev.args.j] = MulFloor(GrossOf(ev.args.out), fees.p)>> >>
               \o SpreadChecks(ev.args.offer, ev.args.out, ev.args.ms, ev.args.bp)
          ELSE Untouched(st, t)
               \o (IF ev.args.wrong_path \/ ~st.tog.s THEN <<>> ELSE SpreadInsideChecks(ev.args.offer, ev.args.sim, ev.args.ms, ev.args.bp))
     [] ev.ev = "provide" ->
          IF ev.res = "ok" THEN ProvideChecks(st, ev.args.d, ev.args.curve, ev.args.minted, ev.args.slip # "none", ev.args.slip, t) \o HarnessAmp(ev)
          ELSE Untouched(st, t)
     [] ev.ev = "withdraw" ->
          IF ev.res = "ok" THEN WithdrawChecks(st, ev.args.amt, t) ELSE Untouched(st, t)
     \* the direct withdrawal message hands in no cw20 LP tokens: it must be refused
     [] ev.ev = "wdirect" ->
          (IF ev.res = "ok" THEN WithdrawChecks(st, ev.args.amt, t) ELSE Untouched(st, t))
          \o << <<"C04.withdraw.only-against-LP-tokens", ev.res # "ok">> >>
     [] ev.ev = "collect" ->
          IF ev.res = "ok" THEN CollectChecks(st, t) \o CollectLedgerChecks(st, t) ELSE Untouched(st, t)
     \* the three pause switches (C17)
     [] ev.ev = "settog" ->
          IF ev.res = "ok"
          THEN << <<"C16.settog.owner-only", ev.actor = "owner">>,
                  <<"C17.obs.toggles", t.tog = [d |-> ev.args.d, w |-> ev.args.w, s |-> ev.args.s]>> >> \o Untouched(st, t)
          ELSE Untouched(st, t) \o << <<"C17.settog.by-owner-rejected", ev.actor # "owner">>, <<"C17.rejected.switches-unchanged", t.tog = st.tog>> >>
     [] OTHER -> << <<"TRACE.unknown-event", FALSE>> >>)
  \o StateChecks(t) \o LedgerChecks(st, t) \o TogChecks(ev, t)
  \o (IF ev.ev = "tick" THEN <<>> ELSE << <<"TRACE.height-only-moves-on-tick", t.height = st.height>> >>)

Report(ev, bad) ==
  IF bad = {} THEN TRUE
  ELSE PrintT(ToJson([k |-> "BAD", run |-> ev.run, step |-> IF ev.ev = "reset" THEN -1 ELSE ev.step,
                      line |-> l, ev |-> ev.ev, bad |-> bad]))

Init == l = 1 /\ st = [res |-> <<>>] /\ fees = [p |-> Zero, s |-> Zero, b |-> Zero]
Next ==
  /\ l <= Len(Rec)
  /\ LET ev == Rec[l] IN
       IF ev.ev = "reset"
       THEN /\ st' = StOf(ev.obs)
            /\ fees' = [p |-> ev.cfg.fees.p, s |-> ev.cfg.fees.s, b |-> ev.cfg.fees.b]
            /\ Report(ev, Failed(StateChecks(StOf(ev.obs))))
       ELSE LET t == StOf(ev.obs) IN
            /\ Report(ev, Failed(EvChecks(ev, t)))
            /\ st' = t /\ fees' = fees
  /\ l' = l + 1
Spec == Init /\ [][Next]_vars
Consumed ==
  /\ PrintT(ToJson([k |-> "CONSUMED", consumed |-> TLCGet("stats").diameter - 1, lines |-> Len(Rec)]))
  /\ TLCGet("stats").diameter - 1 = Len(Rec)
=============================================================================
