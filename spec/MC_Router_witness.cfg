SPECIFICATION Spec
CONSTANTS
  DEC = 10
  U128MAX = 100000
  MaxOffer = 6
  MinFrom = "sender"
INVARIANTS ClausesHold
CHECK_DEADLOCK FALSE
