---------------------------- MODULE Trace_Router ----------------------------
(* Trace validation of real router transactions against Router.tla.         *)
EXTENDS Router, Json, IOUtils

Rec == ndJsonDeserialize(IOEnv.TRACE)
VARIABLES l
vars == <<l>>

EvChecks(ev) ==
  CASE ev.ev = "route" ->
         LET ok == ev.res = "ok"
             rOk == ev.retry.res = "ok"
         IN RouteChecks(ev.args.min # "none", ev.args.min, ok, ev.out.gain, rOk, ev.retry.gain, ev.dpre = ev.dpost)
            \o SimChecks(ev.args.sim.res = "ok", ev.args.sim.amount, ok, ev.out.gain, rOk, ev.retry.gain, ev.args.stray)
    [] ev.ev \in {"move", "collect", "stray"} -> << <<"TRACE.setup-step-went-through", ev.res = "ok">> >>
    [] OTHER -> << <<"TRACE.unknown-event", FALSE>> >>

Report(ev, bad) ==
  IF bad = {} THEN TRUE
  ELSE PrintT(ToJson([k |-> "BAD", run |-> ev.run, step |-> IF ev.ev = "reset" THEN -1 ELSE ev.step,
                      line |-> l, ev |-> ev.ev, bad |-> bad]))
Init == l = 1
Next ==
  /\ l <= Len(Rec)
  /\ LET ev == Rec[l] IN IF ev.ev = "reset" THEN TRUE ELSE Report(ev, Failed(EvChecks(ev)))
  /\ l' = l + 1
Spec == Init /\ [][Next]_vars
Consumed ==
  /\ PrintT(ToJson([k |-> "CONSUMED", consumed |-> TLCGet("stats").diameter - 1, lines |-> Len(Rec)]))
  /\ TLCGet("stats").diameter - 1 = Len(Rec)
=============================================================================
