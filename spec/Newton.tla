------------------------------- MODULE Newton -------------------------------
(* The contracts' own Newton iterations, step for step - a transcription of today's code, used for drift reporting  *)
(* (does the code still compute what it computed when the bounded results were obtained ?) and never as a rule.     *)
(*   terraswap_pair/src/helpers.rs : compute_d / compute_next_d / compute_lp_mint_amount_for_stableswap_deposit     *)
(*   (exact integer arithmetic on Uint512; at most 256 rounds, stops when two iterates are one unit apart and       *)
(*   returns the LATER one; when the rounds run out the last iterate is returned as it is)                          *)
EXTENDS Dec

NextD2(ann, d, dprod, sumx) ==
  (d ** ((dprod ** Two) ++ (sumx ** ann))) // ((d ** (ann -- One)) ++ (dprod ** N(3)))
RECURSIVE D2Iter(_, _, _, _, _, _)
D2Iter(ann, a2, b2, sumx, d, k) ==
  IF k = 0 THEN d
  ELSE LET dprod == ((((d ** d) // a2) ** d) // b2)
           dn == NextD2(ann, d, dprod, sumx)
           diff == IF d \prec dn THEN dn -- d ELSE d -- dn
       IN IF diff \preceq One THEN dn ELSE D2Iter(ann, a2, b2, sumx, dn, k - 1)
\* defined for a, b > 0 (the code divides by 2a and 2b)
ImplComputeD2(amp, a, b) == D2Iter(amp ** Two, a ** Two, b ** Two, a ++ b, a ++ b, 256)
\* [ok, minted]: ok = FALSE where the code answers None (the invariant did not grow)
ImplMint2(amp, xa, xb, pa, pb, S) ==
  LET d0 == ImplComputeD2(amp, pa, pb)
      d1 == ImplComputeD2(amp, pa ++ xa, pb ++ xb)
  IN IF d1 \preceq d0 THEN [ok |-> FALSE, minted |-> Zero] ELSE [ok |-> TRUE, minted |-> (S ** (d1 -- d0)) // d0]
\* ---- three-asset pool: stableswap_3pool/src/stableswap_math/curve.rs compute_d / compute_next_d /
\* compute_mint_amount_for_deposit (the same iteration on Uint256 with three reserves; an overflow there aborts the call,
\* which the transcription does not model: aborted calls are not compared)
NextD3(ann, d, dprod, sumx) ==
  (d ** ((dprod ** N(3)) ++ (sumx ** ann))) // ((d ** (ann -- One)) ++ (dprod ** N(4)))
RECURSIVE D3Iter(_, _, _, _, _, _, _)
D3Iter(ann, a3, b3, c3, sumx, d, k) ==
  IF k = 0 THEN d
  ELSE LET dprod == ((((((d ** d) // a3) ** d) // b3) ** d) // c3)
           dn == NextD3(ann, d, dprod, sumx)
           diff == IF d \prec dn THEN dn -- d ELSE d -- dn
       IN IF diff \preceq One THEN dn ELSE D3Iter(ann, a3, b3, c3, sumx, dn, k - 1)
ImplComputeD3(amp, a, b, c) == D3Iter(amp ** N(3), a ** N(3), b ** N(3), c ** N(3), (a ++ b) ++ c, (a ++ b) ++ c, 256)
ImplMint3(amp, xa, xb, xc, pa, pb, pc, S) ==
  LET d0 == ImplComputeD3(amp, pa, pb, pc)
      d1 == ImplComputeD3(amp, pa ++ xa, pb ++ xb, pc ++ xc)
  IN IF d1 \preceq d0 THEN [ok |-> FALSE, minted |-> Zero] ELSE [ok |-> TRUE, minted |-> (S ** (d1 -- d0)) // d0]
=============================================================================
