SPECIFICATION Spec
CONSTANTS
  DEC = 100
  U128MAX = 100000
  Assets = {"uwhale", "uusdc", "uatom", "tokena"}
  Dist = "uwhale"
  PoolKids = {"pair1", "pair2"}
  VaultKids = {"vault1", "vault2"}
  COLLECT_MIN = 10
INVARIANTS RulesHold Emit
CHECK_DEADLOCK FALSE
