SPECIFICATION Spec
CONSTANTS
  DEC = "1000000000000000000"
  U128MAX = "340282366920938463463374607431768211455"
  Assets = {"uwhale", "uusdc", "uatom", "tokena"}
  Dist = "uwhale"
  PoolKids = {"pair1", "pair2"}
  VaultKids = {"vault1", "vault2"}
  COLLECT_MIN = "1000"
POSTCONDITION Consumed
CHECK_DEADLOCK FALSE
