// Java override for the TLA+ module spec/num_big/Num.tla: arbitrary-precision
// integers represented as canonical decimal strings ("0", "17", "-3").
// Registered through WWOverrides (tlc2.overrides.ITLCOverrides).
import java.math.BigInteger;

import tlc2.overrides.TLAPlusOperator;
import tlc2.value.impl.BoolValue;
import tlc2.value.impl.IntValue;
import tlc2.value.impl.StringValue;
import tlc2.value.impl.Value;

public final class BigNum {
    private static BigInteger big(final Value v) {
        if (v instanceof IntValue) {
            return BigInteger.valueOf(((IntValue) v).val);
        }
        if (v instanceof StringValue) {
            return new BigInteger(((StringValue) v).val.toString());
        }
        throw new IllegalArgumentException("BigNum: not a number: " + v);
    }

    private static Value str(final BigInteger b) {
        return new StringValue(b.toString());
    }

    private static BigInteger floorDiv(final BigInteger a, final BigInteger b) {
        if (b.signum() == 0) {
            throw new ArithmeticException("BigNum: division by zero");
        }
        BigInteger[] qr = a.divideAndRemainder(b);
        if (qr[1].signum() != 0 && (qr[1].signum() != b.signum())) {
            return qr[0].subtract(BigInteger.ONE);
        }
        return qr[0];
    }

    @TLAPlusOperator(identifier = "N", module = "Num", warn = false)
    public static Value N(final Value a) {
        return str(big(a));
    }

    @TLAPlusOperator(identifier = "++", module = "Num", warn = false)
    public static Value add(final Value a, final Value b) {
        return str(big(a).add(big(b)));
    }

    @TLAPlusOperator(identifier = "--", module = "Num", warn = false)
    public static Value sub(final Value a, final Value b) {
        return str(big(a).subtract(big(b)));
    }

    @TLAPlusOperator(identifier = "**", module = "Num", warn = false)
    public static Value mul(final Value a, final Value b) {
        return str(big(a).multiply(big(b)));
    }

    @TLAPlusOperator(identifier = "//", module = "Num", warn = false)
    public static Value div(final Value a, final Value b) {
        return str(floorDiv(big(a), big(b)));
    }

    @TLAPlusOperator(identifier = "%%", module = "Num", warn = false)
    public static Value mod(final Value a, final Value b) {
        BigInteger x = big(a), y = big(b);
        return str(x.subtract(floorDiv(x, y).multiply(y)));
    }

    @TLAPlusOperator(identifier = "\\preceq", module = "Num", warn = false)
    public static Value le(final Value a, final Value b) {
        return big(a).compareTo(big(b)) <= 0 ? BoolValue.ValTrue : BoolValue.ValFalse;
    }

    @TLAPlusOperator(identifier = "\\prec", module = "Num", warn = false)
    public static Value lt(final Value a, final Value b) {
        return big(a).compareTo(big(b)) < 0 ? BoolValue.ValTrue : BoolValue.ValFalse;
    }

    @TLAPlusOperator(identifier = "Sqrt", module = "Num", warn = false)
    public static Value sqrt(final Value a) {
        return str(big(a).sqrt());
    }

    @TLAPlusOperator(identifier = "Pow", module = "Num", warn = false)
    public static Value pow(final Value a, final Value k) {
        return str(big(a).pow(big(k).intValueExact()));
    }

    @TLAPlusOperator(identifier = "NMin", module = "Num", warn = false)
    public static Value min(final Value a, final Value b) {
        return str(big(a).min(big(b)));
    }

    @TLAPlusOperator(identifier = "NMax", module = "Num", warn = false)
    public static Value max(final Value a, final Value b) {
        return str(big(a).max(big(b)));
    }

    // number of bits of |a| (0 for 0): a cheap magnitude class for coverage
    @TLAPlusOperator(identifier = "Bits", module = "Num", warn = false)
    public static Value bits(final Value a) {
        return IntValue.gen(big(a).abs().bitLength());
    }

    // small numbers back to TLC integers (error if it does not fit)
    @TLAPlusOperator(identifier = "ToInt", module = "Num", warn = false)
    public static Value toInt(final Value a) {
        return IntValue.gen(big(a).intValueExact());
    }

    @TLAPlusOperator(identifier = "IsNum", module = "Num", warn = false)
    public static Value isNum(final Value a) {
        try {
            BigInteger b = big(a);
            if (a instanceof StringValue && !b.toString().equals(((StringValue) a).val.toString())) {
                return BoolValue.ValFalse; // non-canonical spelling
            }
            return BoolValue.ValTrue;
        } catch (RuntimeException e) {
            return BoolValue.ValFalse;
        }
    }
}
