import tlc2.overrides.ITLCOverrides;

public class WWOverrides implements ITLCOverrides {
    @SuppressWarnings("rawtypes")
    @Override
    public Class[] get() {
        return new Class[] { BigNum.class };
    }
}
