"""Registry: which models, suites and trace specifications decide which property."""

POOL_SUITE = {"suite": "pool", "trace": "Trace_Pool", "cfg": "Trace_Pool.cfg",
              "quick": {"runs": 240, "ops": 30}, "thorough": {"runs": 20000, "ops": 40}, "procs": 10}
MC_POOL = {"module": "MC_Pool", "quick": "MC_Pool_quick.cfg", "thorough": "MC_Pool.cfg", "workers": 6,
           "timeout": {"quick": 600, "thorough": 3000}}

MATH_CP = {"suite": "math", "trace": "Trace_Math", "cfg": "Trace_Math.cfg", "extra": {"kind": "cp"},
           "quick": {"runs": 40, "ops": 1000}, "thorough": {"runs": 2000, "ops": 1000}, "procs": 8}
MATH_SPREAD = {"suite": "math", "trace": "Trace_Math", "cfg": "Trace_Math.cfg", "extra": {"kind": "spread"},
               "quick": {"runs": 30, "ops": 1000}, "thorough": {"runs": 1000, "ops": 1000}, "procs": 6}
MC_CPMATH = {"module": "MC_CpMath", "quick": "MC_CpMath_quick.cfg", "thorough": "MC_CpMath.cfg", "workers": 10,
             "timeout": {"quick": 600, "thorough": 3000}}
MC_CPMATH10 = {"module": "MC_CpMath", "quick": "MC_CpMath_dec10.cfg", "thorough": "MC_CpMath_dec10.cfg", "workers": 4,
               "timeout": {"quick": 600, "thorough": 3000}}

VAULT_SUITE = {"suite": "vault", "trace": "Trace_Vault", "cfg": "Trace_Vault.cfg",
               "quick": {"runs": 240, "ops": 30}, "thorough": {"runs": 20000, "ops": 40}, "procs": 10}
MC_VAULT = {"module": "MC_Vault", "quick": "MC_Vault_quick.cfg", "thorough": "MC_Vault.cfg", "workers": 6,
            "timeout": {"quick": 600, "thorough": 3000}}

LAIR_RANDOM = {"suite": "lair", "trace": "Trace_Lair", "cfg": "Trace_Lair.cfg",
               "quick": {"runs": 120, "ops": 40}, "thorough": {"runs": 10000, "ops": 60}, "procs": 6}
LAIR_SCHED = {"suite": "lair", "trace": "Trace_Lair", "cfg": "Trace_Lair.cfg", "sched_from": "MC_Lair_sched",
              "extra": {"mode": "sched"}, "quick": {"runs": 1500}, "thorough": {"runs": 0}, "procs": 8}
MC_LAIR = {"module": "MC_Lair", "quick": "MC_Lair_quick.cfg", "thorough": "MC_Lair.cfg", "workers": 6,
           "timeout": {"quick": 600, "thorough": 3000}}
MC_LAIR_SCHED = {"module": "MC_Lair", "quick": "MC_Lair_sched.cfg", "thorough": "MC_Lair_sched5.cfg", "workers": 4,
                 "emits": "MC_Lair_sched", "timeout": {"quick": 600, "thorough": 3000}}

def _ep(kind, sched):
    d = {"suite": "epochs", "trace": "Trace_Epochs", "cfg": "Trace_Epochs.cfg", "extra": {"kind": kind}, "procs": 4}
    if sched:
        d.update({"sched_from": f"MC_Epochs_{kind}_sched", "extra": {"kind": kind, "mode": "sched"},
                  "quick": {"runs": 1200}, "thorough": {"runs": 0}})
    else:
        d.update({"quick": {"runs": 60, "ops": 40}, "thorough": {"runs": 5000, "ops": 80}})
    return d


def _mc_ep(kind, sched):
    if sched:
        return {"module": "MC_Epochs", "quick": f"MC_Epochs_{kind}_sched.cfg", "thorough": f"MC_Epochs_{kind}_sched.cfg",
                "workers": 4, "emits": f"MC_Epochs_{kind}_sched"}
    return {"module": "MC_Epochs", "quick": f"MC_Epochs_{kind}.cfg", "thorough": f"MC_Epochs_{kind}.cfg", "workers": 6}


def _reg(kind, quick_runs):
    return ({"module": "MC_Registry", "quick": f"MC_Registry_{kind}.cfg", "thorough": f"MC_Registry_{kind}.cfg", "workers": 4,
             "emits": f"MC_Registry_{kind}"},
            {"suite": "registry", "trace": "Trace_Registry", "cfg": "Trace_Registry.cfg", "sched_from": f"MC_Registry_{kind}",
             "extra": {"mode": "sched", "kind": kind}, "quick": {"runs": quick_runs}, "thorough": {"runs": 0}, "procs": 6})


_REG = [_reg("pair", 400), _reg("trio", 250), _reg("vault", 400), _reg("incentive", 0)]

DIST_RANDOM = {"suite": "dist", "trace": "Trace_Distributor", "cfg": "Trace_Distributor.cfg",
               "quick": {"runs": 80, "ops": 60}, "thorough": {"runs": 6000, "ops": 120}, "procs": 6}
DIST_MULTI = {"suite": "dist", "trace": "Trace_Distributor", "cfg": "Trace_Distributor.cfg", "extra": {"kind": "multi"},
              "quick": {"runs": 40, "ops": 60}, "thorough": {"runs": 2500, "ops": 120}, "procs": 6}
DIST_SCHED = {"suite": "dist", "trace": "Trace_Distributor", "cfg": "Trace_Distributor.cfg", "sched_from": "MC_Distributor_sched",
              "extra": {"mode": "sched"}, "quick": {"runs": 700}, "thorough": {"runs": 0}, "procs": 8}
MC_DIST = {"module": "MC_Distributor", "quick": "MC_Distributor_quick.cfg", "thorough": "MC_Distributor.cfg", "workers": 6,
           "timeout": {"quick": 600, "thorough": 3000}}
MC_DIST_SCHED = {"module": "MC_Distributor", "quick": "MC_Distributor_sched.cfg", "thorough": "MC_Distributor_sched.cfg", "workers": 4,
                 "emits": "MC_Distributor_sched"}

INC_RANDOM = {"suite": "incentive", "trace": "Trace_Incentive", "cfg": "Trace_Incentive.cfg",
              "quick": {"runs": 120, "ops": 70}, "thorough": {"runs": 8000, "ops": 120}, "procs": 6}
INC_SCHED = {"suite": "incentive", "trace": "Trace_Incentive", "cfg": "Trace_Incentive.cfg", "sched_from": "MC_Incentive_sched",
             "extra": {"mode": "sched"}, "quick": {"runs": 600}, "thorough": {"runs": 12000}, "procs": 8}
MC_INC = [{"module": "MC_Incentive", "quick": "MC_Incentive_quick.cfg", "thorough": "MC_Incentive.cfg", "workers": 6, "timeout": {"quick": 600, "thorough": 3000}},
          {"module": "MC_Incentive", "quick": "MC_Incentive_flows.cfg", "thorough": "MC_Incentive_flows.cfg", "workers": 4},
          {"module": "MC_Incentive", "quick": "MC_Incentive_sched.cfg", "thorough": "MC_Incentive_sched.cfg", "workers": 4, "emits": "MC_Incentive_sched"}]
MC_EMISSION = {"module": "MC_Emission", "quick": "MC_Emission_fresh.cfg", "thorough": "MC_Emission.cfg", "workers": 6}
MATH_WEIGHT = {"suite": "math", "trace": "Trace_Math", "cfg": "Trace_Math.cfg", "extra": {"kind": "weight"},
               "quick": {"runs": 10, "ops": 2000}, "thorough": {"runs": 500, "ops": 2000}, "procs": 4}

MATH_ST2 = {"suite": "math", "trace": "Trace_Math", "cfg": "Trace_Math.cfg", "extra": {"kind": "st2"},
            "quick": {"runs": 16, "ops": 240}, "thorough": {"runs": 320, "ops": 600}, "procs": 8}
MATH_ST3 = {"suite": "math", "trace": "Trace_Math", "cfg": "Trace_Math.cfg", "extra": {"kind": "st3"},
            "quick": {"runs": 16, "ops": 300}, "thorough": {"runs": 320, "ops": 600}, "procs": 8}
TRIO_SUITE = {"suite": "trio", "trace": "Trace_Trio", "cfg": "Trace_Trio.cfg",
              "quick": {"runs": 32, "ops": 120}, "thorough": {"runs": 2400, "ops": 200}, "procs": 8}
MC_STABLE = {"module": "MC_Stable", "quick": "MC_Stable_quick.cfg", "thorough": "MC_Stable.cfg", "workers": 4,
             "timeout": {"quick": 600, "thorough": 3000}}
MC_TRIO = [{"module": "MC_Trio", "quick": "MC_Trio_quick.cfg", "thorough": "MC_Trio_ramps.cfg", "workers": 6, "timeout": {"quick": 600, "thorough": 3000}},
           {"module": "MC_Trio", "quick": "MC_Trio_pool.cfg", "thorough": "MC_Trio_pool.cfg", "workers": 6, "timeout": {"quick": 600, "thorough": 3000}}]

POOL_STABLE = {"suite": "pool", "trace": "Trace_Pool", "cfg": "Trace_Pool.cfg", "extra": {"kind": "stable"},
               "quick": {"runs": 64, "ops": 30}, "thorough": {"runs": 5000, "ops": 40}, "procs": 8}
HELPER_SUITE = {"suite": "helper", "trace": "Trace_Helper", "cfg": "Trace_Helper.cfg",
                "quick": {"runs": 24, "ops": 50}, "thorough": {"runs": 2000, "ops": 100}, "procs": 4}
MC_HELPER = {"module": "MC_Helper", "quick": "MC_Helper.cfg", "thorough": "MC_Helper.cfg", "workers": 2}
ROUTE_SUITE = {"suite": "route", "trace": "Trace_Router", "cfg": "Trace_Router.cfg",
               "quick": {"runs": 24, "ops": 60}, "thorough": {"runs": 2000, "ops": 120}, "procs": 6}
MC_ROUTER = {"module": "MC_Router", "quick": "MC_Router.cfg", "thorough": "MC_Router.cfg", "workers": 4}

def _wit(module, cfg, expect):
    """a witness configuration: the bounded model with a named deviation switched on; it must violate `expect`"""
    return {"module": module, "quick": cfg, "thorough": cfg, "workers": 2, "expect": expect, "timeout": {"quick": 300, "thorough": 600}}

WIT_EMISSION = [_wit("MC_Emission", "MC_Emission_witness_start.cfg", "Invariant NeverRefused is violated"),
                _wit("MC_Emission", "MC_Emission_witness_stretch.cfg", "Invariant NeverRefused is violated")]
WIT_WEIGHTHIST = [_wit("MC_WeightHist", "MC_WeightHist_witness_a.cfg", "Invariant SharesWithinSnapshot is violated"),
                  _wit("MC_WeightHist", "MC_WeightHist_witness_b.cfg", "Invariant SharesWithinSnapshot is violated"),
                  _wit("MC_WeightHist", "MC_WeightHist_witness_scheduled.cfg", "Invariant SharesWithinSnapshot is violated")]
# the weight histories entry by entry: quick = the "settled claims beside a scheduled flow" configuration at three epochs,
# thorough = that one, the one without the scheduled flow and the one without closes at four epochs
MC_WEIGHTHIST = [{"module": "MC_WeightHist", "quick": "MC_WeightHist_quick.cfg", "thorough": "MC_WeightHist_late_scheduled.cfg", "workers": 6},
                 {"module": "MC_WeightHist", "quick": "MC_WeightHist_quick_noclose.cfg", "thorough": "MC_WeightHist.cfg", "workers": 6},
                 {"module": "MC_WeightHist", "quick": "MC_WeightHist_quick_late.cfg", "thorough": "MC_WeightHist_late.cfg", "workers": 6}] + WIT_WEIGHTHIST

PROPS = {
    "C01": {"mc": [MC_POOL], "suites": [POOL_SUITE]},
    "C02": {"mc": [MC_CPMATH], "suites": [MATH_CP, POOL_SUITE]},
    "C03": {"mc": [MC_STABLE], "suites": [MATH_ST2, POOL_STABLE]},
    "C04": {"mc": [MC_STABLE] + MC_TRIO, "suites": [MATH_ST3, TRIO_SUITE]},
    "C05": {"mc": [MC_VAULT, _wit("MC_Vault", "MC_Vault_S3witness.cfg", "Invariant LoanTxOK is violated")], "suites": [VAULT_SUITE]},
    "C06": {"mc": [MC_VAULT, _wit("MC_Vault", "MC_Vault_S3witness.cfg", "Invariant LoanTxOK is violated")], "suites": [VAULT_SUITE]},
    "C07": {"mc": [MC_POOL, MC_VAULT], "suites": [POOL_SUITE, VAULT_SUITE, POOL_STABLE, TRIO_SUITE]},
    "C08": {"mc": [MC_LAIR, MC_LAIR_SCHED, {"module": "MC_LairWeight", "quick": "MC_LairWeight.cfg", "thorough": "MC_LairWeight.cfg", "workers": 4}, _wit("MC_LairWeight", "MC_LairWeight_witness.cfg", "Invariant WeightsWithinGlobal is violated")], "suites": [LAIR_SCHED, LAIR_RANDOM]},
    "C20": {"mc": [_mc_ep("manager", False), _mc_ep("distributor", False), _mc_ep("manager", True), _mc_ep("distributor", True)],
            "suites": [_ep("manager", True), _ep("distributor", True), _ep("manager", False), _ep("distributor", False)],
            # unbounded (any duration, genesis, time steps): inductive invariant of the clock, initiation + consecution
            "apalache": [{"module": "Ap_Epochs.tla", "tiers": ["thorough"],
                          "steps": [["--cinit=ConstInit", "--init=Init", "--inv=IndInv", "--length=0"],
                                    ["--cinit=ConstInit", "--init=IndInv", "--inv=IndInv", "--length=1"]]}]},
    "C16": {"mc": [{"module": "MC_Access", "quick": "MC_Access.cfg", "thorough": "MC_Access.cfg", "workers": 2, "emits": "MC_Access"}],
            "suites": [{"suite": "access", "trace": "Trace_Access", "cfg": "Trace_Access.cfg", "sched_from": "MC_Access",
                        "extra": {"mode": "sched"}, "quick": {"runs": 0}, "thorough": {"runs": 0}, "procs": 4},
                       POOL_SUITE, VAULT_SUITE]},
    "C17": {"mc": [{"module": "MC_Toggles", "quick": "MC_Toggles.cfg", "thorough": "MC_Toggles.cfg", "workers": 2, "emits": "MC_Toggles"}],
            "suites": [{"suite": "toggles", "trace": "Trace_Toggles", "cfg": "Trace_Toggles.cfg", "sched_from": "MC_Toggles",
                        "extra": {"mode": "sched"}, "quick": {"runs": 0}, "thorough": {"runs": 0}, "procs": 4},
                       POOL_SUITE, VAULT_SUITE, TRIO_SUITE]},
    "C18": {"mc": [{"module": "MC_Config", "quick": "MC_Config.cfg", "thorough": "MC_Config.cfg", "workers": 4, "emits": "MC_Config"}],
            "suites": [{"suite": "config", "trace": "Trace_Config", "cfg": "Trace_Config.cfg", "sched_from": "MC_Config",
                        "extra": {"mode": "sched"}, "quick": {"runs": 0}, "thorough": {"runs": 0}, "procs": 6},
                       POOL_SUITE, VAULT_SUITE, TRIO_SUITE, DIST_RANDOM]},
    "C19": {"mc": [m for m, _ in _REG], "suites": [x for _, x in _REG]},
    "C09": {"mc": [MC_DIST, MC_DIST_SCHED, {"module": "MC_BondedClaims", "quick": "MC_BondedClaims_quick.cfg", "thorough": "MC_BondedClaims.cfg", "workers": 4}, _wit("MC_BondedClaims", "MC_BondedClaims_witness.cfg", "Invariant NeverRefused is violated")], "suites": [DIST_SCHED, DIST_RANDOM, DIST_MULTI]},
    "C10": {"mc": [{"module": "MC_Pipeline", "quick": "MC_Pipeline.cfg", "thorough": "MC_Pipeline.cfg", "workers": 4, "emits": "MC_Pipeline"}, MC_DIST],
            "suites": [{"suite": "pipeline", "trace": "Trace_Pipeline", "cfg": "Trace_Pipeline.cfg", "sched_from": "MC_Pipeline",
                        "extra": {"mode": "sched"}, "quick": {"runs": 400}, "thorough": {"runs": 0}, "procs": 8}, DIST_RANDOM, DIST_MULTI],
            "tags": ["C10."]},
    "C11": {"mc": MC_INC + [MC_HELPER, _wit("MC_Helper", "MC_Helper_witness.cfg", "Invariant ClausesHold is violated")], "suites": [INC_SCHED, INC_RANDOM, HELPER_SUITE]},
    "C12": {"mc": MC_INC + [MC_EMISSION] + WIT_EMISSION, "suites": [INC_SCHED, INC_RANDOM]},
    "C13": {"mc": MC_INC + [MC_EMISSION, _wit("MC_Incentive", "MC_Incentive_S8witness.cfg", "Invariant WeightMatchesPositions is violated")] + MC_WEIGHTHIST, "suites": [INC_SCHED, INC_RANDOM, MATH_WEIGHT]},
    "C14": {"mc": [MC_POOL, MC_VAULT, MC_ROUTER, _wit("MC_Router", "MC_Router_witness.cfg", "Invariant ClausesHold is violated")], "suites": [POOL_SUITE, VAULT_SUITE, ROUTE_SUITE, TRIO_SUITE, POOL_STABLE]},
    "C15": {"mc": [MC_POOL, MC_ROUTER, _wit("MC_Router", "MC_Router_witness.cfg", "Invariant ClausesHold is violated")], "suites": [POOL_SUITE, MATH_SPREAD, ROUTE_SUITE, POOL_STABLE, TRIO_SUITE]},
}
