"""Registry: which models, suites and trace specifications decide which property."""

POOL_SUITE = {"suite": "pool", "trace": "Trace_Pool", "cfg": "Trace_Pool.cfg",
              "quick": {"runs": 240, "ops": 30}, "thorough": {"runs": 6000, "ops": 40}, "procs": 8}
MC_POOL = {"module": "MC_Pool", "quick": "MC_Pool_quick.cfg", "thorough": "MC_Pool.cfg", "workers": 6,
           "timeout": {"quick": 600, "thorough": 3000}}

PROPS = {
    "C01": {"mc": [MC_POOL], "suites": [POOL_SUITE]},
    "C07": {"mc": [MC_POOL], "suites": [POOL_SUITE]},
    "C14": {"mc": [MC_POOL], "suites": [POOL_SUITE]},
    "C15": {"mc": [MC_POOL], "suites": [POOL_SUITE]},
}
