"""Per-property claim texts for MANIFEST.json."""
NOTE = ("Trusted base: TLC 1.8.0 + CommunityModules Json/IOUtils, the 150-line BigNum Java override (checked against "
        "native integers by spec/NumAgree.tla at setup), cw-multi-test 0.16.5 as chain model, the harness recorder "
        "(outcomes are logged twice: response attributes and observed balances; the specification recomputes the "
        "post-state by conservation and requires both to agree). Bounded exhaustiveness only within the stated constants; "
        "real-scale behaviour is sampled (seeded, boundary-biased), not exhausted.")
TV = "TLA+ spec + TLC model checking (bounded, exhaustive) + TLC trace validation of real executions"
TEXTS = {
    "C01": {"ref": "DESIGN.md §8 C01", "technique": TV, "note": NOTE,
            "text": "Pool.tla states the pool as a state machine whose actions take the call's outcome as parameters constrained by the property's own clauses (pro-rata mint/refund, first-deposit sqrt rule, locked minimum liquidity). TLC explores every interleaving of 2 users over small amounts at the rule layer and checks solvency, LP-value monotonicity and the derived deposit-then-withdraw statements, and that today's formulas satisfy the rules in every reachable bounded state. Every executed message of seeded histories on the real pair (3 users, native/cw20, 128-bit magnitudes) is then validated by TLC against the same rules with exact big-number arithmetic, the specification recomputing each post-state by conservation."},
    "C02": {"ref": "DESIGN.md §8 C02", "technique": TV + " (function-as-trace)", "note": NOTE,
            "text": "CpMath.tla transcribes the statement (gross = floor(ask*offer/(pool+offer)), each fee = floor(share*gross), proceeds < ask reserve, no profit there-and-back). TLC checks it exhaustively on the whole small domain at reduced decimal precision; every call of the real compute_swap (hook) over boundary-biased 128-bit inputs and 18-decimal fee shares is one trace event validated against the TLA+ definition, including totality (no abort when the result fits) and chained there-and-back calls; executed swaps of the pool suite are validated too."},
    "C07": {"ref": "DESIGN.md §8 C07", "technique": TV, "note": NOTE,
            "text": "Ledger identities (pending = charged - transferred, all-time counters monotone and equal to the sum of charges, burns leave circulation, collection moves exactly pending-or-nothing to the collector and leaves reserves unchanged) are step checks of Pool.tla / Vault.tla evaluated by TLC on every transition of the bounded model and on every executed message of real histories, including collections at pending amounts 0, below and above the 1000-unit threshold."},
    "C14": {"ref": "DESIGN.md §8 C14", "technique": TV, "note": NOTE,
            "text": "In the specification a quote is a function of the state and the swap outcome must equal it. Before every executed swap the harness queries Simulation in the same state; the trace rule requires the quote to equal the executed outcome field by field and the outcome to equal the observed balance and ledger deltas, in every state the histories reach (pending fees, after donations and collections, native and cw20 offers)."},
    "C15": {"ref": "DESIGN.md §8 C15", "technique": TV, "note": NOTE,
            "text": "SpreadBound / SpreadInside (Pool.tla) state the slippage clauses with the only tolerance being one decimal atomic and one base unit; accepted swaps and deposits must satisfy the bound and requests strictly inside must not be rejected. Checked on executed swaps/deposits with limits drawn around the realised spread and on direct calls of assert_max_spread over dense boundary inputs."},
}
PENDING = {}
