"""Shared machinery of bin/check: build, TLC model checking, trace generation on the real
contracts, TLC trace validation, verdicts, evidence.  Exit codes: 0 held, 1 VIOLATION, 2 tool error."""
import fcntl
import hashlib
import json
import os
import re
import shutil
import subprocess
import sys
import time
from concurrent.futures import ThreadPoolExecutor

V = os.path.dirname(os.path.dirname(os.path.abspath(__file__)))
SPEC = os.path.join(V, "spec")
HARNESS = os.path.join(V, "harness")
WORK = os.path.join(V, "work")
EVID = os.path.join(V, "evidence")
REPLAYS = os.path.join(EVID, "replays")
WWV = os.path.join(HARNESS, "target", "release", "wwv")
TLCW = os.path.join(V, "bin", "tlcw")


class ToolError(Exception):
    pass


def log(*a):
    print(*a, file=sys.stderr, flush=True)


def sh(cmd, timeout=None, cwd=None, env=None):
    e = dict(os.environ)
    if env:
        e.update(env)
    try:
        p = subprocess.run(cmd, cwd=cwd, env=e, stdout=subprocess.PIPE, stderr=subprocess.STDOUT,
                           timeout=timeout, text=True, errors="replace")
    except subprocess.TimeoutExpired as ex:
        out = ex.stdout or ""
        if isinstance(out, bytes):
            out = out.decode(errors="replace")
        return 124, out
    return p.returncode, p.stdout


# --------------------------------------------------------------------------- build

def ensure_tlc_classes():
    cls = os.path.join(V, "tlc", "classes", "BigNum.class")
    src = os.path.join(V, "tlc", "BigNum.java")
    if os.path.exists(cls) and os.path.getmtime(cls) >= os.path.getmtime(src):
        return
    os.makedirs(os.path.join(V, "tlc", "classes"), exist_ok=True)
    rc, out = sh(["javac", "-cp", "/opt/veriftools/tla/tla2tools.jar", "-d",
                  os.path.join(V, "tlc", "classes"),
                  os.path.join(V, "tlc", "BigNum.java"), os.path.join(V, "tlc", "WWOverrides.java")], timeout=300)
    if rc != 0:
        raise ToolError("javac failed:\n" + out)


def build_harness():
    """(Re)builds the harness against /repo's current working tree; shared by concurrent checks."""
    os.makedirs(WORK, exist_ok=True)
    ensure_tlc_classes()
    with open(os.path.join(WORK, ".build.lock"), "w") as lk:
        fcntl.flock(lk, fcntl.LOCK_EX)
        t0 = time.time()
        env = {"CARGO_NET_OFFLINE": "true"}
        rc, out = sh(["cargo", "build", "--release", "--offline"], cwd=HARNESS, timeout=3000, env=env)
        if rc != 0:
            raise ToolError("harness build failed (is /repo compiling?):\n" + out[-4000:])
        log(f"[build] harness ready in {time.time() - t0:.1f}s")
    return WWV


# --------------------------------------------------------------------------- TLC

def run_mc(module, cfg, workers=8, timeout=1500, coverage=False, tag=None):
    """Exhaustive TLC run with the Int back end.  Returns dict(states, transitions, depth, ok, errors)."""
    tag = tag or (module + "_" + os.path.splitext(cfg)[0])
    meta = os.path.join(WORK, "mc_" + tag)
    shutil.rmtree(meta, ignore_errors=True)
    cmd = ["timeout", str(timeout), TLCW, "int", "-workers", str(workers), "-metadir", meta, "-cleanup",
           "-noGenerateSpecTE", "-config", cfg]
    if coverage:
        cmd += ["-coverage", "1"]
    cmd += [module + ".tla"]
    t0 = time.time()
    rc, out = sh(cmd, cwd=SPEC, timeout=timeout + 60)
    shutil.rmtree(meta, ignore_errors=True)
    logp = os.path.join(WORK, f"mc_{tag}.log")
    with open(logp, "w") as f:
        f.write(out)
    m = re.search(r"(\d+) states generated, (\d+) distinct states found, (\d+) states left on queue", out)
    d = re.search(r"The depth of the complete state graph search is (\d+)", out)
    res = {"module": module, "cfg": cfg, "rc": rc, "wall_s": round(time.time() - t0, 1), "log": logp,
           "transitions": int(m.group(1)) if m else 0, "states": int(m.group(2)) if m else 0,
           "queue": int(m.group(3)) if m else -1, "depth": int(d.group(1)) if d else 0}
    viol = re.findall(r"Error: (Invariant \S+ is violated|Action property \S+ is violated|Temporal properties were violated|.*is violated.*)", out)
    res["violations"] = viol
    res["complete"] = bool(m) and res["queue"] == 0 and "Model checking completed" in out
    res["sched"] = [l for l in out.splitlines() if l.startswith('"{') or l.startswith("SCHED")]
    if rc == 124 or rc == 137:
        res["timeout"] = True
    elif rc != 0 and not viol:
        raise ToolError(f"TLC failed on {module}/{cfg} (rc={rc}); see {logp}\n" + out[-2500:])
    return res


def tlc_json_lines(out):
    """Lines printed by PrintT(ToJson(..)): a quoted, escaped JSON object per line."""
    res = []
    for line in out.splitlines():
        line = line.strip()
        if line.startswith('"{') and line.endswith('}"'):
            try:
                res.append(json.loads(json.loads(line)))
            except Exception:
                pass
    return res


def run_tv(module, cfg, trace, timeout=900, tag=None):
    """TLC trace validation (BigNum back end) of one ndjson file.  Returns (bad list, consumed, lines)."""
    tag = tag or (module + "_" + hashlib.md5(trace.encode()).hexdigest()[:8])
    meta = os.path.join(WORK, "tv_" + tag)
    shutil.rmtree(meta, ignore_errors=True)
    cmd = ["timeout", str(timeout), TLCW, "big", "-workers", "1", "-metadir", meta, "-cleanup",
           "-noGenerateSpecTE", "-config", cfg, module + ".tla"]
    rc, out = sh(cmd, cwd=SPEC, timeout=timeout + 60, env={"TRACE": trace})
    shutil.rmtree(meta, ignore_errors=True)
    recs = tlc_json_lines(out)
    bad = [r for r in recs if r.get("k") == "BAD"]
    cons = [r for r in recs if r.get("k") == "CONSUMED"]
    if rc != 0 or not cons or cons[0]["consumed"] != cons[0]["lines"]:
        logp = os.path.join(WORK, f"tv_{tag}.log")
        with open(logp, "w") as f:
            f.write(out)
        raise ToolError(f"trace validation did not consume {trace} (rc={rc}); see {logp}\n" + out[-3000:])
    for b in bad:
        b["file"] = trace
    return bad, cons[0]["consumed"], cons[0]["lines"]


def run_apalache(module, steps, timeout=1500, tag="ap"):
    """Apalache (symbolic) checks of a typed module under spec/apalache: each step is a list of command-line options
    (e.g. inductive-invariant initiation and consecution).  Returns a summary; raises ToolError when a step fails."""
    out_dir = os.path.join(WORK, "apalache_" + tag)
    shutil.rmtree(out_dir, ignore_errors=True)
    res = []
    for i, opts in enumerate(steps):
        t0 = time.time()
        cmd = ["timeout", str(timeout), "apalache-mc", "check", f"--out-dir={out_dir}"] + opts + [module]
        rc, out = sh(cmd, cwd=os.path.join(SPEC, "apalache"), timeout=timeout + 60)
        ok = "EXITCODE: OK" in out
        res.append({"model": "apalache:" + module, "cfg": " ".join(opts), "ok": ok, "wall_s": round(time.time() - t0, 1)})
        if not ok:
            logp = os.path.join(WORK, f"apalache_{tag}_{i}.log")
            with open(logp, "w") as f:
                f.write(out)
            raise ToolError(f"apalache step {opts} on {module} did not pass (rc={rc}); see {logp}")
    shutil.rmtree(out_dir, ignore_errors=True)
    return res


MAX_CHUNK_LINES = 2500   # TLC's time per trace line grows with the length of the trace it holds: keep chunks short


def split_trace(path, nchunks):
    """Splits an ndjson trace at reset events into files of similar size: at least `nchunks` of them (when there are
    that many runs) and as many more as needed to keep each below MAX_CHUNK_LINES lines."""
    runs, cur = [], []
    with open(path) as f:
        for line in f:
            if '"ev":"reset"' in line and cur:
                runs.append(cur)
                cur = []
            cur.append(line)
    if cur:
        runs.append(cur)
    total = sum(len(r) for r in runs)
    nchunks = max(nchunks, -(-total // MAX_CHUNK_LINES))
    nchunks = max(1, min(nchunks, len(runs)))
    target = total / nchunks
    files, acc, n = [], [], 0
    for r in runs:
        acc.extend(r)
        if len(acc) >= target and len(files) < nchunks - 1:
            fp = f"{path}.part{n}"
            with open(fp, "w") as f:
                f.writelines(acc)
            files.append(fp)
            acc, n = [], n + 1
    if acc:
        fp = f"{path}.part{n}"
        with open(fp, "w") as f:
            f.writelines(acc)
        files.append(fp)
    return files


def validate_parallel(module, cfg, trace, procs=10, timeout=1200):
    parts = split_trace(trace, procs)
    bad, consumed = [], 0
    with ThreadPoolExecutor(max_workers=procs) as ex:
        futs = [ex.submit(run_tv, module, cfg, p, timeout) for p in parts]
        for fu in futs:
            b, c, _ = fu.result()
            bad.extend(b)
            consumed += c
    return bad, consumed, parts


# --------------------------------------------------------------------------- traces

def gen_trace(suite, out, seed, runs=None, ops=None, extra=None, timeout=1800):
    cmd = [WWV, suite, "--seed", str(seed), "--out", out]
    if runs is not None:
        cmd += ["--runs", str(runs)]
    if ops is not None:
        cmd += ["--ops", str(ops)]
    for k, v in (extra or {}).items():
        cmd += ["--" + k, str(v)]
    rc, o = sh(cmd, timeout=timeout)
    if rc != 0:
        raise ToolError(f"harness suite {suite} failed rc={rc}:\n{o[-3000:]}")
    return out


def load_events(path):
    with open(path) as f:
        return [json.loads(l) for l in f if l.strip()]


def amounts_of(v, acc):
    if isinstance(v, str):
        if v.isdigit():
            acc.append(int(v))
    elif isinstance(v, list):
        for x in v:
            amounts_of(x, acc)
    elif isinstance(v, dict):
        for x in v.values():
            amounts_of(x, acc)


def event_class(e):
    """(event, result, magnitude signature of arguments and outcome) and whether it is non-trivial."""
    a, o = [], []
    amounts_of(e.get("args", {}), a)
    amounts_of(e.get("out", {}), o)
    labels = []

    def walk(v):
        if isinstance(v, str):
            if not v.isdigit() and len(v) <= 16:
                labels.append(v)
        elif isinstance(v, bool):
            labels.append(str(v))
        elif isinstance(v, list):
            for x in v:
                walk(x)
        elif isinstance(v, dict):
            for k2, x in v.items():
                if k2 in ("a", "op", "x", "class", "d", "role", "variant", "path", "contract", "who", "field", "kind"):
                    walk(x)
                elif isinstance(x, (list, dict)):
                    walk(x)
    walk(e.get("args", {}))
    sig = tuple(x.bit_length() for x in a) + ("|",) + tuple(x.bit_length() for x in o) + ("|", e.get("actor"),) + tuple(labels[:8])
    nontrivial = (e.get("res") != "ok") or any(x > 0 for x in o) or any(x > 0 for x in a)
    return (e.get("ev"), e.get("res"), sig), nontrivial


def extract_run(parts_file, line_no):
    """The lines of the run containing 1-based line `line_no` of `parts_file`."""
    with open(parts_file) as f:
        lines = f.readlines()
    i = line_no - 1
    s = i
    while s > 0 and '"ev":"reset"' not in lines[s]:
        s -= 1
    e = i + 1
    while e < len(lines) and '"ev":"reset"' not in lines[e]:
        e += 1
    return lines[s:e]


# --------------------------------------------------------------------------- known findings

def load_known():
    p = os.path.join(V, "known_findings.json")
    if not os.path.exists(p):
        return []
    with open(p) as f:
        return json.load(f).get("findings", [])


def nested_loan(e):
    """does the event's flash-loan script contain a loan inside a loan's call-back?"""
    def has_loan(script):
        return any(a.get("a") == "loan" for a in script)
    def walk(script):
        return any(a.get("a") == "loan" and (has_loan(a.get("sub", [])) or walk(a.get("sub", []))) for a in script)
    return walk(e.get("args", {}).get("script", []))


def match_known(known, pid, bad, event):
    """A BAD record is explained by a known finding iff every failing check of this property is listed
    by one finding whose event type and witness condition match."""
    names = [n for n in bad["bad"] if n.startswith(pid + ".")]
    for k in known:
        if k["property"] != pid:
            continue
        if k.get("ev") and k["ev"] != bad["ev"]:
            continue
        if not set(names) <= set(k["checks"]):
            continue
        cond = k.get("when")
        if cond:
            try:
                if not eval(cond, {"__builtins__": {}}, {"e": event, "int": int, "len": len, "any": any, "all": all, "nested_loan": nested_loan}):
                    continue
            except Exception:
                continue
        return k
    return None


def write_evidence(pid, ev):
    os.makedirs(EVID, exist_ok=True)
    with open(os.path.join(EVID, pid + ".json"), "w") as f:
        json.dump(ev, f, indent=1)
