//! The fully wired liquidity hub: collector, factories, routers, bonding, distributor.
use cosmwasm_std::{Addr, Decimal};

use crate::world::*;

pub struct Hub {
    pub collector: Addr,
    pub pool_factory: Addr,
    pub pool_router: Addr,
    pub vault_factory: Addr,
    pub vault_router: Addr,
    pub lair: Addr,
    pub distributor: Addr,
}

pub const DAY: u64 = 86_400_000_000_000;

impl World {
    /// `genesis` in ns; distribution asset and bonding asset are native denoms
    pub fn new_hub(&mut self, grace: u64, duration: u64, genesis: u64, dist: &str, bonding: &[&str], unbonding_period: u64) -> Hub {
        let collector = self.new_fee_collector();
        let pool_factory = self.new_pool_factory(&collector);
        let pool_router = self.new_pool_router(&pool_factory);
        let vault_factory = self.new_vault_factory(&collector);
        let vault_router = self.new_vault_router(&vault_factory);
        let lair = self.new_lair(unbonding_period, Decimal::permille(1), bonding);
        let distributor = self.new_fee_distributor(&lair, &collector, grace, duration, genesis, dist);
        let r = self.exec(
            &self.owner.clone(),
            &lair,
            &white_whale_std::whale_lair::ExecuteMsg::UpdateConfig {
                owner: None, unbonding_period: None, growth_rate: None,
                fee_distributor_addr: Some(distributor.to_string()),
            },
            &[],
        );
        assert!(r.is_ok(), "{}", r.err());
        let r = self.exec(
            &self.owner.clone(),
            &collector,
            &white_whale_std::fee_collector::ExecuteMsg::UpdateConfig {
                owner: None,
                pool_router: Some(pool_router.to_string()),
                fee_distributor: Some(distributor.to_string()),
                pool_factory: Some(pool_factory.to_string()),
                vault_factory: Some(vault_factory.to_string()),
                take_rate: None,
                take_rate_dao_address: None,
                is_take_rate_active: None,
            },
            &[],
        );
        assert!(r.is_ok(), "{}", r.err());
        Hub { collector, pool_factory, pool_router, vault_factory, vault_router, lair, distributor }
    }
}
