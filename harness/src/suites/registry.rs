//! Registry suite (C19): create / remove / re-create sequences in every permutation, enumerated by TLC
//! (spec/MC_Registry.tla) over a model universe {A..D} that is mapped onto six real assets
//! (native denoms with byte-prefix-related names and cw20 tokens).  After every step all asset sets are
//! queried in every permutation, entries are compared with what the child reports about itself, and the
//! listing is paged with every page size.
use std::io::BufRead;

use cosmwasm_std::{coin, Addr, Uint128};
use rand::seq::SliceRandom;
use serde_json::{json, Value};

use white_whale_std::pool_network::asset::{AssetInfo, PairInfo, PairType, TrioInfo};
use white_whale_std::pool_network::factory::{ExecuteMsg as PF, PairsResponse, QueryMsg as PQ, TriosResponse};
use white_whale_std::pool_network::router::{SwapOperation, SwapRoute};
use white_whale_std::vault_network::vault_factory::{ExecuteMsg as VF, QueryMsg as VQ, VaultsResponse};

use crate::full::*;
use crate::gen;
use crate::hub::{Hub, DAY};
use crate::rec::Rec;
use crate::suites::vault::vault_fee;
use crate::world::*;

const NATIVES: [&str; 4] = ["abc", "defg", "abcd", "efg"];

struct Reg {
    w: World,
    hub: Hub,
    incentive_factory: Addr,
    /// model name -> real asset
    map: Vec<(String, A)>,
    user: Addr,
}

fn perms<T: Clone>(xs: &[T]) -> Vec<Vec<T>> {
    if xs.len() <= 1 {
        return vec![xs.to_vec()];
    }
    let mut out = vec![];
    for i in 0..xs.len() {
        let mut rest = xs.to_vec();
        let x = rest.remove(i);
        for mut p in perms(&rest) {
            p.insert(0, x.clone());
            out.push(p);
        }
    }
    out
}

fn subsets(names: &[String], k: usize) -> Vec<Vec<String>> {
    let n = names.len();
    let mut out = vec![];
    for mask in 0u32..(1 << n) {
        if mask.count_ones() as usize == k {
            out.push((0..n).filter(|i| mask & (1 << i) != 0).map(|i| names[i].clone()).collect());
        }
    }
    out
}

impl Reg {
    fn new(seed: u64, run: u64, universe: &[String]) -> Reg { Reg::new_kind(seed, run, universe, "") }

    fn new_kind(seed: u64, run: u64, universe: &[String], kind: &str) -> Reg {
        let mut w = World::new();
        let now = w.now_nanos();
        w.add_denom("uwhale");
        let hub = w.new_hub(3, DAY, now + DAY, "uwhale", &["uwhale"], 1_000_000_000_000);
        let pool_router = cw_multi_test::Executor::instantiate_contract(
            &mut w.app, w.codes.pool_router, w.owner.clone(),
            &white_whale_std::pool_network::router::InstantiateMsg { terraswap_factory: hub.pool_factory.to_string() },
            &[], "pool_router_admin", Some(w.owner.to_string())).unwrap();
        w.register("pool_router2", &pool_router);
        let hub = Hub { pool_router, ..hub };
        let mut real: Vec<A> = vec![];
        for d in NATIVES {
            real.push(w.add_denom(d));
            w.factory_add_native(&hub.pool_factory, d, 6);
        }
        real.push(w.add_cw20("tokena", "TKA", 6));
        real.push(w.add_cw20("tokenb", "TKB", 8));
        let mut r = gen::rng(seed, run ^ 0x5245_4749);
        real.shuffle(&mut r);
        // vaults are also keyed by denoms with upper-case letters (IBC denoms): on every other vault run one comes first
        if kind == "vault" && run % 2 == 1 {
            let ibc = w.add_denom("ibc/27394FB092D2ECCD56123C74F36E4C1F926001CEADA9CA97EA622B25F41E5EB2");
            real.insert(0, ibc);
        }
        let map: Vec<(String, A)> = universe.iter().cloned().zip(real.into_iter()).collect();
        let incentive_factory = w.new_incentive_factory(&hub.collector, &hub.distributor, A::Native("uwhale".into()).asset(1000));
        let user = w.add_account("user1");
        for (_, a) in &map {
            w.fund(&user, a, 1_000_000_000_000);
        }
        Reg { w, hub, incentive_factory, map, user }
    }

    fn asset(&self, name: &str) -> A {
        self.map.iter().find(|(n, _)| n == name).map(|(_, a)| a.clone()).unwrap()
    }
    fn name_of_info(&self, info: &AssetInfo) -> String {
        self.map.iter().find(|(_, a)| a.info() == *info).map(|(n, _)| n.clone()).unwrap_or_else(|| "?".into())
    }
    fn infos(&self, perm: &[String]) -> Vec<AssetInfo> {
        perm.iter().map(|n| self.asset(n).info()).collect()
    }

    fn create(&mut self, kind: &str, perm: &[String]) -> Res {
        let owner = self.w.owner.clone();
        let i = self.infos(perm);
        let r = match kind {
            "pair" => self.w.exec(&owner, &self.hub.pool_factory.clone(), &PF::CreatePair {
                asset_infos: [i[0].clone(), i[1].clone()], pool_fees: pool_fee(dec_atomics(ONE / 1000), dec_atomics(ONE / 500), dec_atomics(0)),
                // constant product, or stableswap with an amplification at or beyond either end of its range - the registry
                // entry has to say what the child says, amplification included (chosen by the asset names: reproducible)
                pair_type: match perm.iter().map(|n| n.bytes().map(|b| b as u64).sum::<u64>()).sum::<u64>() % 6 {
                    0 => PairType::StableSwap { amp: 0 }, 1 => PairType::StableSwap { amp: 1_000_001 }, 2 => PairType::StableSwap { amp: 85 },
                    _ => PairType::ConstantProduct }, token_factory_lp: false }, &[]),
            "trio" => self.w.exec(&owner, &self.hub.pool_factory.clone(), &PF::CreateTrio {
                asset_infos: [i[0].clone(), i[1].clone(), i[2].clone()], pool_fees: trio_fee(ONE / 1000, ONE / 500, 0), amp_factor: 100, token_factory_lp: false }, &[]),
            "vault" => self.w.exec(&owner, &self.hub.vault_factory.clone(), &VF::CreateVault { asset_info: i[0].clone(), fees: vault_fee(ONE / 1000, ONE / 1000, 0), token_factory_lp: false }, &[]),
            _ => self.w.exec(&owner, &self.incentive_factory.clone(), &white_whale_std::pool_network::incentive_factory::ExecuteMsg::CreateIncentive { lp_asset: i[0].clone() }, &[]),
        };
        if r.is_ok() {
            // new children (and their LP tokens) become part of the observed world
            if let Some(e) = self.entry(kind, perm) {
                if let Some(a) = e["addr"].as_str() {
                    let addr = Addr::unchecked(a);
                    self.w.register(&format!("{kind}_{}", perm.join("")), &addr);
                    if kind == "pair" {
                        let (a0, a1) = (self.asset(&perm[0]), self.asset(&perm[1]));
                        let u = self.user.clone();
                        let _ = self.w.provide_pair(&u, &addr, [&a0, &a1], [1_000_000, 1_000_000]);
                    }
                }
            }
        }
        r
    }

    fn remove(&mut self, kind: &str, perm: &[String]) -> Res {
        let owner = self.w.owner.clone();
        let i = self.infos(perm);
        match kind {
            "pair" => self.w.exec(&owner, &self.hub.pool_factory.clone(), &PF::RemovePair { asset_infos: [i[0].clone(), i[1].clone()] }, &[]),
            "trio" => self.w.exec(&owner, &self.hub.pool_factory.clone(), &PF::RemoveTrio { asset_infos: [i[0].clone(), i[1].clone(), i[2].clone()] }, &[]),
            _ => self.w.exec(&owner, &self.hub.vault_factory.clone(), &VF::RemoveVault { asset_info: i[0].clone() }, &[]),
        }
    }

    /// the registry entry for the assets given in this order, with the child's own report
    fn entry(&self, kind: &str, perm: &[String]) -> Option<Value> {
        let i = self.infos(perm);
        let sorted = |infos: &[AssetInfo], decs: &[u8]| -> Vec<Value> {
            let mut v: Vec<(String, u8)> = infos.iter().zip(decs.iter()).map(|(a, d)| (self.name_of_info(a), *d)).collect();
            v.sort();
            v.into_iter().map(|(n, d)| json!({"a": n, "dec": d})).collect()
        };
        match kind {
            "pair" => {
                let e: PairInfo = self.w.query(&self.hub.pool_factory, &PQ::Pair { asset_infos: [i[0].clone(), i[1].clone()] }).ok()?;
                let child: Result<PairInfo, _> = self.w.query(&Addr::unchecked(e.contract_addr.clone()), &white_whale_std::pool_network::pair::QueryMsg::Pair {});
                let cj = match child {
                    Ok(c) => json!({"addr": c.contract_addr, "assets": sorted(&c.asset_infos, &c.asset_decimals), "lp": c.liquidity_token.to_string(), "type": serde_json::to_string(&c.pair_type).unwrap_or_default()}),
                    Err(_) => json!({"addr": "err"}),
                };
                Some(json!({"addr": e.contract_addr, "entry": {"addr": e.contract_addr, "assets": sorted(&e.asset_infos, &e.asset_decimals), "lp": e.liquidity_token.to_string(), "type": serde_json::to_string(&e.pair_type).unwrap_or_default()}, "child": cj}))
            }
            "trio" => {
                let e: TrioInfo = self.w.query(&self.hub.pool_factory, &PQ::Trio { asset_infos: [i[0].clone(), i[1].clone(), i[2].clone()] }).ok()?;
                let child: Result<TrioInfo, _> = self.w.query(&Addr::unchecked(e.contract_addr.clone()), &white_whale_std::pool_network::trio::QueryMsg::Trio {});
                let cj = match child {
                    Ok(c) => json!({"addr": c.contract_addr, "assets": sorted(&c.asset_infos, &c.asset_decimals), "lp": c.liquidity_token.to_string(), "type": "trio"}),
                    Err(_) => json!({"addr": "err"}),
                };
                Some(json!({"addr": e.contract_addr, "entry": {"addr": e.contract_addr, "assets": sorted(&e.asset_infos, &e.asset_decimals), "lp": e.liquidity_token.to_string(), "type": "trio"}, "child": cj}))
            }
            "vault" => {
                let e: Option<String> = self.w.query(&self.hub.vault_factory, &VQ::Vault { asset_info: i[0].clone() }).ok()?;
                let a = e?;
                let child: Result<white_whale_std::vault_network::vault::Config, _> = self.w.query(&Addr::unchecked(a.clone()), &white_whale_std::vault_network::vault::QueryMsg::Config {});
                let cj = match child {
                    Ok(c) => json!({"addr": a, "assets": [{"a": self.name_of_info(&c.asset_info), "dec": 0}], "lp": "-", "type": "vault"}),
                    Err(_) => json!({"addr": "err"}),
                };
                Some(json!({"addr": a, "entry": {"addr": a, "assets": [{"a": perm[0], "dec": 0}], "lp": "-", "type": "vault"}, "child": cj}))
            }
            _ => {
                let e: Option<Addr> = self.w.query(&self.incentive_factory, &white_whale_std::pool_network::incentive_factory::QueryMsg::Incentive { lp_asset: i[0].clone() }).ok()?;
                let a = e?.to_string();
                let child: Result<white_whale_std::pool_network::incentive::Config, _> = self.w.query(&Addr::unchecked(a.clone()), &white_whale_std::pool_network::incentive::QueryMsg::Config {});
                let cj = match child {
                    Ok(c) => json!({"addr": a, "assets": [{"a": self.name_of_info(&c.lp_asset), "dec": 0}], "lp": "-", "type": if c.factory_address == self.incentive_factory { "incentive" } else { "foreign-factory" }}),
                    Err(_) => json!({"addr": "err"}),
                };
                Some(json!({"addr": a, "entry": {"addr": a, "assets": [{"a": perm[0], "dec": 0}], "lp": "-", "type": "incentive"}, "child": cj}))
            }
        }
    }

    /// pages through the listing with page size k, the last item of a page being the cursor of the next
    fn pages(&self, kind: &str, k: u32) -> Vec<String> {
        let mut out: Vec<String> = vec![];
        match kind {
            "pair" => {
                let mut cur: Option<[AssetInfo; 2]> = None;
                for _ in 0..40 {
                    let r: PairsResponse = self.w.query(&self.hub.pool_factory, &PQ::Pairs { start_after: cur.clone(), limit: Some(k) }).unwrap();
                    if r.pairs.is_empty() { break; }
                    for p in &r.pairs { out.push(p.contract_addr.clone()); }
                    cur = Some(r.pairs.last().unwrap().asset_infos.clone());
                }
            }
            "trio" => {
                let mut cur: Option<[AssetInfo; 3]> = None;
                for _ in 0..40 {
                    let r: TriosResponse = self.w.query(&self.hub.pool_factory, &PQ::Trios { start_after: cur.clone(), limit: Some(k) }).unwrap();
                    if r.trios.is_empty() { break; }
                    for p in &r.trios { out.push(p.contract_addr.clone()); }
                    cur = Some(r.trios.last().unwrap().asset_infos.clone());
                }
            }
            "vault" => {
                let mut cur: Option<Vec<u8>> = None;
                for _ in 0..40 {
                    let r: VaultsResponse = self.w.query(&self.hub.vault_factory, &VQ::Vaults { start_after: cur.clone(), limit: Some(k) }).unwrap();
                    if r.vaults.is_empty() { break; }
                    for p in &r.vaults { out.push(p.vault.clone()); }
                    cur = Some(r.vaults.last().unwrap().asset_info_reference.clone());
                }
            }
            _ => {
                let mut cur: Option<AssetInfo> = None;
                for _ in 0..40 {
                    let r: white_whale_std::pool_network::incentive_factory::IncentivesResponse = self.w.query(&self.incentive_factory,
                        &white_whale_std::pool_network::incentive_factory::QueryMsg::Incentives { start_after: cur.clone(), limit: Some(k) }).unwrap();
                    if r.is_empty() { break; }
                    for p in &r { out.push(p.incentive_address.to_string()); }
                    // the cursor is the LP asset of the last item
                    let last = r.last().unwrap();
                    let c: white_whale_std::pool_network::incentive::Config = self.w.query(&last.incentive_address, &white_whale_std::pool_network::incentive::QueryMsg::Config {}).unwrap();
                    cur = Some(c.lp_asset);
                }
            }
        }
        out
    }

    fn obs(&self, kind: &str, universe: &[String], arity: usize) -> Value {
        let mut sets = vec![];
        for sset in subsets(universe, arity) {
            let mut per = vec![];
            for p in perms(&sset) {
                per.push(match self.entry(kind, &p) {
                    Some(e) => e,
                    None => json!({"addr": "none"}),
                });
            }
            // the factory's storage key: sorted raw asset ids, concatenated
            let mut ids: Vec<String> = sset.iter().map(|n| self.asset(n).id()).collect();
            ids.sort();
            sets.push(json!({"set": sset, "key": ids.concat(), "perms": per}));
        }
        let n = subsets(universe, arity).len() as u32;
        let pages: Vec<Value> = (1..=n + 1).map(|k| json!({"k": k, "addrs": self.pages(kind, k)})).collect();
        json!({"sets": sets, "pages": pages})
    }
}

pub fn run_schedule(rec: &mut Rec, seed: u64, run: u64, line: &str) {
    let v: Value = serde_json::from_str(line).unwrap();
    let kind = v["kind"].as_str().unwrap().to_string();
    let arity = match kind.as_str() { "pair" => 2, "trio" => 3, _ => 1 };
    let universe: Vec<String> = if arity >= 2 { vec!["A", "B", "C", "D"] } else { vec!["A", "B", "C"] }.into_iter().map(String::from).collect();
    let mut g = Reg::new_kind(seed, run, &universe, &kind);
    let mapping: Vec<Value> = g.map.iter().map(|(n, a)| json!({"m": n, "real": a.id(), "kind": a.kind()})).collect();
    rec.emit(json!({"ev": "reset", "suite": "registry", "run": run, "seed": seed.to_string(), "sched": v.clone(),
        "cfg": {"kind": kind, "arity": arity, "universe": universe, "map": mapping}, "obs": g.obs(&kind, &universe, arity)}));
    let ops = v["ops"].as_array().unwrap().clone();
    let mut step = 0usize;
    for o in &ops {
        let op = o["op"].as_str().unwrap();
        let perm: Vec<String> = o["perm"].as_array().unwrap().iter().map(|x| x.as_str().unwrap().to_string()).collect();
        let dpre = g.w.digest();
        let rs = if op == "create" { g.create(&kind, &perm) } else { g.remove(&kind, &perm) };
        let dpost = g.w.digest();
        rec.emit(json!({"ev": op, "run": run, "step": step, "actor": "owner", "args": {"perm": perm, "kind": kind},
            "res": rs.tag(), "err": jerr(&rs.err()), "dpre": if rs.is_ok() { "-".to_string() } else { dpre }, "dpost": if rs.is_ok() { "-".to_string() } else { dpost },
            "obs": g.obs(&kind, &universe, arity)}));
        step += 1;
    }
    if kind == "pair" {
        // routes: storing and executing a hop over every asset set of the universe
        let owner = g.w.owner.clone();
        for sset in subsets(&universe, 2) {
            let (a, b) = (g.asset(&sset[0]), g.asset(&sset[1]));
            let hop = SwapOperation::TerraSwap { offer_asset_info: a.info(), ask_asset_info: b.info() };
            let route = SwapRoute { offer_asset_info: a.info(), ask_asset_info: b.info(), swap_operations: vec![hop.clone()] };
            let registered = g.entry("pair", &sset).is_some();
            let before = reported(&g.w, &g.hub.pool_router, &a, &b, &vec![hop.clone()]);
            let rs = g.w.exec(&owner, &g.hub.pool_router.clone(), &white_whale_std::pool_network::router::ExecuteMsg::AddSwapRoutes { swap_routes: vec![route] }, &[]);
            let after = reported(&g.w, &g.hub.pool_router, &a, &b, &vec![hop.clone()]);
            rec.emit(json!({"ev": "route_add", "run": run, "step": step, "actor": "owner", "args": {"perm": sset, "kind": kind},
                "res": rs.tag(), "err": jerr(&rs.err()), "dpre": "-", "dpost": "-", "obs": {"registered": registered, "reported_before": before, "reported": after}}));
            step += 1;
            let u = g.user.clone();
            let rs = match &a {
                A::Native(d) => g.w.exec(&u, &g.hub.pool_router.clone(), &white_whale_std::pool_network::router::ExecuteMsg::ExecuteSwapOperations {
                    operations: vec![hop], minimum_receive: None, to: None, max_spread: Some(dec("0.5")) }, &[coin(1000, d.clone())]),
                A::Cw20(t) => g.w.cw20_send(&u, &t.clone(), &g.hub.pool_router.clone(), 1000, &white_whale_std::pool_network::router::Cw20HookMsg::ExecuteSwapOperations {
                    operations: vec![hop], minimum_receive: None, to: None, max_spread: Some(dec("0.5")) }),
            };
            rec.emit(json!({"ev": "route_exec", "run": run, "step": step, "actor": "user1", "args": {"perm": sset, "kind": kind},
                "res": rs.tag(), "err": jerr(&rs.err()), "dpre": "-", "dpost": "-", "obs": {"registered": registered}}));
            step += 1;
        }
    }
    if kind == "pair" {
        // two-hop routes a -> b -> c over every ordered triple: stored only when BOTH hops are registered pairs
        let owner = g.w.owner.clone();
        let n = universe.len();
        for i in 0..n { for j in 0..n { for k in 0..n {
            if i == j || j == k || i == k { continue; }
            let path = vec![universe[i].clone(), universe[j].clone(), universe[k].clone()];
            let (a, b, c) = (g.asset(&path[0]), g.asset(&path[1]), g.asset(&path[2]));
            let hops = vec![SwapOperation::TerraSwap { offer_asset_info: a.info(), ask_asset_info: b.info() },
                            SwapOperation::TerraSwap { offer_asset_info: b.info(), ask_asset_info: c.info() }];
            let before = reported(&g.w, &g.hub.pool_router, &a, &c, &hops);
            let route = SwapRoute { offer_asset_info: a.info(), ask_asset_info: c.info(), swap_operations: hops.clone() };
            let reg = [g.entry("pair", &vec![path[0].clone(), path[1].clone()]).is_some(), g.entry("pair", &vec![path[1].clone(), path[2].clone()]).is_some()];
            let rs = g.w.exec(&owner, &g.hub.pool_router.clone(), &white_whale_std::pool_network::router::ExecuteMsg::AddSwapRoutes { swap_routes: vec![route] }, &[]);
            let after = reported(&g.w, &g.hub.pool_router, &a, &c, &hops);
            rec.emit(json!({"ev": "route_add2", "run": run, "step": step, "actor": "owner", "args": {"path": path, "kind": kind},
                "res": rs.tag(), "err": jerr(&rs.err()), "dpre": "-", "dpost": "-", "obs": {"registered": reg, "reported_before": before, "reported": after}}));
            step += 1;
        } } }
    }
    let _ = Uint128::zero();
}

/// what the router's SwapRoute query reports for (offer, ask), compared with the operations just offered to it
fn reported(w: &World, router: &cosmwasm_std::Addr, offer: &A, ask: &A, ops: &Vec<SwapOperation>) -> &'static str {
    match w.query::<Vec<SwapOperation>, _>(router, &white_whale_std::pool_network::router::QueryMsg::SwapRoute { offer_asset_info: offer.info(), ask_asset_info: ask.info() }) {
        Ok(v) if &v == ops => "same",
        Ok(_) => "other",
        Err(_) => "none",
    }
}

pub fn main(seed: u64, first: u64, runs: u64, out: &str, sched: Option<&String>) {
    let mut rec = Rec::create(out);
    let path = sched.expect("registry suite needs --sched");
    let f = std::io::BufReader::new(std::fs::File::open(path).expect("schedule file"));
    let lines: Vec<String> = f.lines().map(|l| l.unwrap()).filter(|l| !l.trim().is_empty()).collect();
    let mut run = first;
    for (i, line) in lines.iter().enumerate() {
        if runs > 0 && (i as u64) >= runs {
            break;
        }
        run_schedule(&mut rec, seed, run, line);
        run += 1;
    }
    let n = rec.finish();
    eprintln!("registry: {n} lines -> {out}");
}
