//! Pure-function suite: one event per call of the real math (through the cfg(wwcore_verif)
//! `verif_hooks` re-exports and public std functions), validated against the TLA+ definitions.
use std::panic::{catch_unwind, AssertUnwindSafe};

use cosmwasm_std::Uint128;
use rand::rngs::StdRng;
use rand::Rng;
use serde_json::{json, Value};

use terraswap_pair::verif_hooks as pairh;
use white_whale_std::pool_network::asset::PairType;
use white_whale_std::pool_network::swap::assert_max_spread;

use crate::gen;
use crate::rec::Rec;
use crate::world::*;

const ONE: u128 = 1_000_000_000_000_000_000;

fn big_amount(r: &mut StdRng) -> u128 {
    match r.gen_range(0..6) {
        0 => gen::amount(r, u128::MAX),
        1 => gen::log_uniform(r, 1, u128::MAX),
        2 => gen::log_uniform(r, 1, 1 << 64),
        3 => gen::amount(r, 1 << 100),
        4 => gen::log_uniform(r, 1, 1_000_000),
        _ => gen::log_uniform(r, 1, 1 << 127),
    }
}

fn fees(r: &mut StdRng) -> [u128; 3] {
    match r.gen_range(0..8) {
        0 => [0, 0, 0],
        1 => [ONE / 3, ONE / 3, ONE / 3],                 // total 0.999999999999999999
        2 => [ONE - 1, 0, 0],
        3 => [1, 1, 1],
        4 => [3_000_000_000_000_000, 1_000_000_000_000_000, 0],
        _ => {
            let p = gen::share_atomics(r, ONE - 1);
            let s = gen::share_atomics(r, ONE - 1 - p);
            let b = gen::share_atomics(r, ONE - 1 - p - s);
            [p, s, b]
        }
    }
}

fn cp_call(op: u128, ak: u128, off: u128, f: [u128; 3], dec: [u8; 2]) -> (String, Value) {
    let r = catch_unwind(AssertUnwindSafe(|| {
        pairh::compute_swap(
            Uint128::new(op),
            Uint128::new(ak),
            Uint128::new(off),
            pool_fee(dec_atomics(f[0]), dec_atomics(f[1]), dec_atomics(f[2])),
            &PairType::ConstantProduct,
            dec[0],
            dec[1],
        )
    }));
    match r {
        Ok(Ok(c)) => (
            "ok".into(),
            json!({"ret": s(c.return_amount.u128()), "spread": s(c.spread_amount.u128()),
                   "sf": s(c.swap_fee_amount.u128()), "pf": s(c.protocol_fee_amount.u128()),
                   "bf": s(c.burn_fee_amount.u128())}),
        ),
        Ok(Err(_)) => ("rejected".into(), json!({"ret": "0", "spread": "0", "sf": "0", "pf": "0", "bf": "0"})),
        Err(_) => ("aborted".into(), json!({"ret": "0", "spread": "0", "sf": "0", "pf": "0", "bf": "0"})),
    }
}

fn num(v: &Value, k: &str) -> u128 {
    v[k].as_str().unwrap().parse().unwrap()
}

pub fn cp_events(rec: &mut Rec, r: &mut StdRng, run: u64, n: usize) {
    for step in 0..n {
        let (op, ak, off) = match r.gen_range(0..8) {
            // reserve ratios beyond 1e18 both ways
            0 => {
                let a = gen::log_uniform(r, 1, 1 << 40);
                (a.saturating_mul(gen::log_uniform(r, ONE / 10, ONE * 1000)), gen::log_uniform(r, 1, 1000), big_amount(r))
            }
            1 => {
                let a = gen::log_uniform(r, 1, 1 << 40);
                (gen::log_uniform(r, 1, 1000), a.saturating_mul(gen::log_uniform(r, ONE / 10, ONE * 1000)), big_amount(r))
            }
            // offer + reserve overflowing u128, results around 2^128
            2 => (u128::MAX - r.gen_range(0..3u128), big_amount(r), u128::MAX - r.gen_range(0..3u128)),
            3 => (gen::log_uniform(r, 1, 1000), u128::MAX - r.gen_range(0..1000u128), big_amount(r)),
            _ => (big_amount(r), big_amount(r), big_amount(r)),
        };
        let f = fees(r);
        let dec = *gen::pick(r, &[[6u8, 6u8], [6, 18], [18, 6], [0, 0], [8, 6]]);
        let (res, out) = cp_call(op, ak, off, f, dec);
        let args = json!({"op": s(op), "ak": s(ak), "off": s(off),
                          "fees": {"p": s(f[0]), "s": s(f[1]), "b": s(f[2])}, "dec": [dec[0], dec[1]]});
        if res == "ok" && r.gen_bool(0.5) {
            // there and straight back, reserves after the first swap by conservation
            let (ret, pf, bf) = (num(&out, "ret"), num(&out, "pf"), num(&out, "bf"));
            let op2 = ak.checked_sub(ret).and_then(|x| x.checked_sub(pf)).and_then(|x| x.checked_sub(bf)).unwrap_or(0);
            let ak2 = op.checked_add(off);
            if let (Some(ak2), true) = (ak2, ret > 0 && op2 > 0) {
                let (res2, out2) = cp_call(op2, ak2, ret, f, [dec[1], dec[0]]);
                rec.emit(json!({"ev": "cpround", "run": run, "step": step, "args": args, "res": res, "out": out,
                    "args2": {"op": s(op2), "ak": s(ak2), "off": s(ret)}, "res2": res2, "out2": out2}));
                continue;
            }
        }
        rec.emit(json!({"ev": "cpswap", "run": run, "step": step, "args": args, "res": res, "out": out}));
    }
}

fn opt(x: Option<u128>) -> Value {
    match x {
        Some(v) => s(v),
        None => json!("none"),
    }
}

pub fn spread_events(rec: &mut Rec, r: &mut StdRng, run: u64, n: usize) {
    for step in 0..n {
        let gross = gen::log_uniform(r, 1, 1 << 110);
        // spread as a fraction around the candidate limit
        let ms: Option<u128> = match r.gen_range(0..8) {
            0 => None,
            1 => Some(0),
            2 => Some(ONE / 2),
            3 => Some(ONE / 2 + 1),
            4 => Some(ONE),
            5 => Some(ONE / 100),
            _ => Some(gen::share_atomics(r, ONE)),
        };
        let eff = ms.unwrap_or(ONE / 100).min(ONE / 2);
        let belief: Option<u128> = if r.gen_bool(0.4) {
            Some(match r.gen_range(0..5) {
                0 => 1,
                1 => ONE,
                2 => gen::log_uniform(r, 1, ONE * 1_000_000),
                3 => gen::log_uniform(r, ONE / 1000, ONE * 1000),
                _ => 0,
            })
        } else {
            None
        };
        // spread such that spread/(gross+spread) ~ eff: spread = gross*eff/(1-eff)
        let base = (cosmwasm_std::Uint256::from(gross) * cosmwasm_std::Uint256::from(eff))
            / cosmwasm_std::Uint256::from(ONE - eff.min(ONE - 1));
        let base: u128 = Uint128::try_from(base).map(|x| x.u128()).unwrap_or(u128::MAX / 2);
        let spread = match r.gen_range(0..8) {
            0 => base,
            1 => base.saturating_add(1),
            2 => base.saturating_sub(1),
            3 => base.saturating_add(2),
            4 => 0,
            5 => gen::log_uniform(r, 1, (gross / 50).max(1)),
            _ => gen::log_uniform(r, 1, gross),
        };
        let offer = match (belief, r.gen_range(0..6)) {
            (Some(bp), 0..=3) if bp > 0 => {
                // offer such that offer/bp ~ gross/(1-eff)
                let target = (cosmwasm_std::Uint256::from(gross) * cosmwasm_std::Uint256::from(ONE))
                    / cosmwasm_std::Uint256::from(ONE - eff.min(ONE - 1));
                let o = (target * cosmwasm_std::Uint256::from(bp)) / cosmwasm_std::Uint256::from(ONE);
                let o: u128 = Uint128::try_from(o).map(|x| x.u128()).unwrap_or(u128::MAX / 2);
                match r.gen_range(0..4) { 0 => o, 1 => o.saturating_add(1), 2 => o.saturating_sub(1), _ => o.saturating_add(o / 1000) }.max(1)
            }
            _ => gen::log_uniform(r, 1, 1 << 110),
        };
        let rr = catch_unwind(AssertUnwindSafe(|| {
            assert_max_spread(
                belief.map(dec_atomics),
                ms.map(dec_atomics),
                Uint128::new(offer),
                Uint128::new(gross),
                Uint128::new(spread),
            )
        }));
        let res = match rr {
            Ok(Ok(())) => "ok",
            Ok(Err(_)) => "rejected",
            Err(_) => "aborted",
        };
        rec.emit(json!({"ev": "maxspread", "run": run, "step": step,
            "args": {"bp": opt(belief), "ms": opt(ms), "offer": s(offer), "gross": s(gross), "spread": s(spread)},
            "res": res, "out": {}}));
    }
}

/// incentive weight function (hook): pairs of calls ordered in amount and duration
pub fn weight_events(rec: &mut Rec, r: &mut StdRng, run: u64, n: usize) {
    const DMIN: u64 = 86_400;
    const DMAX: u64 = 31_556_926;
    for step in 0..n {
        let d1 = match r.gen_range(0..6) { 0 => DMIN, 1 => DMAX, 2 => DMIN + 1, 3 => DMAX - 1, 4 => 15_778_463, _ => r.gen_range(DMIN..=DMAX) };
        let d2 = match r.gen_range(0..4) { 0 => d1, 1 => (d1 + 1).min(DMAX), 2 => DMAX, _ => r.gen_range(d1..=DMAX) };
        let a1 = match r.gen_range(0..5) { 0 => 1, 1 => gen::amount(r, 1000), _ => gen::amount(r, 1u128 << 100) };
        let a2 = match r.gen_range(0..4) { 0 => a1, 1 => a1 + 1, _ => a1 + gen::amount(r, a1.max(1)) };
        let call = |d: u64, a: u128| -> (String, u128) {
            match catch_unwind(AssertUnwindSafe(|| incentive::verif_hooks::calculate_weight(d, Uint128::new(a)))) {
                Ok(Ok(w)) => ("ok".into(), w.u128()),
                Ok(Err(_)) => ("rejected".into(), 0),
                Err(_) => ("aborted".into(), 0),
            }
        };
        let (r11, w11) = call(d1, a1);
        let (r12, w12) = call(d1, a2);
        let (r21, w21) = call(d2, a1);
        rec.emit(json!({"ev": "weight", "run": run, "step": step,
            "args": {"d1": d1.to_string(), "d2": d2.to_string(), "a1": s(a1), "a2": s(a2)},
            "res": if r11 == "ok" && r12 == "ok" && r21 == "ok" { "ok" } else { "rejected" },
            "out": {"w11": s(w11), "w12": s(w12), "w21": s(w21)}}));
    }
}

fn pow10(k: u8) -> u128 { 10u128.pow(k as u32) }

/// two-asset stableswap (pair): compute_swap (StableSwap arm) twice from the same reserves (offer, offer2 >= offer)
pub fn st2_swap_events(rec: &mut Rec, r: &mut StdRng, run: u64, n: usize) {
    const DECS: [[u8; 2]; 6] = [[6, 6], [6, 8], [8, 6], [6, 18], [18, 6], [4, 5]];
    for step in 0..n {
        let d = *gen::pick(r, &DECS);
        let amp: u64 = match r.gen_range(0..6) { 0 => 1, 1 => 1_000_000, 2 => 100, 3 => 50, _ => gen::log_uniform(r, 1, 1_000_000) as u64 };
        // reserves in whole tokens (>= 1 token each), up to 2^100 base units
        let cap = |dec: u8| -> u128 { ((1u128 << 100) / pow10(dec)).max(2) };
        let tok_o = gen::log_uniform(r, 1, cap(d[0]).min(1u128 << 60));
        let ratio_cls = r.gen_range(0..6);
        let tok_a = match ratio_cls { 0 => tok_o, 1 => (tok_o / 2).max(1), 2 => tok_o.saturating_mul(3).min(cap(d[1])), 3 => (tok_o / 1000).max(1), _ => gen::log_uniform(r, 1, cap(d[1]).min(1u128 << 60)) };
        let frac = |r: &mut StdRng, dec: u8| -> u128 { if r.gen_bool(0.5) { 0 } else { r.gen_range(0..pow10(dec)) } };
        let op = tok_o * pow10(d[0]) + frac(r, d[0]);
        let ak = tok_a.min(cap(d[1])) * pow10(d[1]) + frac(r, d[1]);
        let off = match r.gen_range(0..6) { 0 => 1, 1 => op, 2 => op / 100 + 1, 3 => pow10(d[0]), _ => gen::log_uniform(r, 1, op.saturating_mul(2).min(1u128 << 100)) };
        let off2 = match r.gen_range(0..3) { 0 => off + 1, 1 => off.saturating_mul(2), _ => off + gen::log_uniform(r, 1, off.max(1)) };
        let f = fees(r);
        let call = |o: u128| -> (String, Value) {
            let rr = catch_unwind(AssertUnwindSafe(|| pairh::compute_swap(Uint128::new(op), Uint128::new(ak), Uint128::new(o),
                pool_fee(dec_atomics(f[0]), dec_atomics(f[1]), dec_atomics(f[2])), &PairType::StableSwap { amp }, d[0], d[1])));
            match rr {
                Ok(Ok(c)) => ("ok".into(), json!({"ret": s(c.return_amount.u128()), "spread": s(c.spread_amount.u128()), "sf": s(c.swap_fee_amount.u128()),
                    "pf": s(c.protocol_fee_amount.u128()), "bf": s(c.burn_fee_amount.u128())})),
                Ok(Err(_)) => ("rejected".into(), json!({"ret": "0", "spread": "0", "sf": "0", "pf": "0", "bf": "0"})),
                Err(_) => ("aborted".into(), json!({"ret": "0", "spread": "0", "sf": "0", "pf": "0", "bf": "0"})),
            }
        };
        let (r1, o1) = call(off);
        let (r2, o2) = call(off2);
        rec.emit(json!({"ev": "st2swap", "run": run, "step": step,
            "args": {"op": s(op), "ak": s(ak), "off": s(off), "off2": s(off2), "amp": amp.to_string(), "do": d[0], "da": d[1],
                     "fees": {"p": s(f[0]), "s": s(f[1]), "b": s(f[2])}},
            "res": r1, "out": o1, "res2": r2, "out2": o2}));
    }
}

/// LP mint of the two-asset stableswap for a later deposit (compute_lp_mint_amount_for_stableswap_deposit)
pub fn st2_deposit_events(rec: &mut Rec, r: &mut StdRng, run: u64, n: usize) {
    const DECS: [[u8; 2]; 6] = [[6, 6], [6, 8], [8, 6], [6, 18], [18, 6], [4, 5]];
    for step in 0..n {
        let d = *gen::pick(r, &DECS);
        let amp: u64 = match r.gen_range(0..5) { 0 => 1, 1 => 1_000_000, 2 => 100, _ => gen::log_uniform(r, 1, 1_000_000) as u64 };
        let tok = gen::log_uniform(r, 1, 1u128 << 40);
        let pa = tok * pow10(d[0]);
        let pb = match r.gen_range(0..4) { 0 => tok, 1 => (tok / 3).max(1), _ => gen::log_uniform(r, 1, 1u128 << 40) } * pow10(d[1]);
        // also deposits far larger than the pool (up to 2^100 base units), one-sided or nearly so
        let top = 1u128 << 100;
        let (xa, xb) = match r.gen_range(0..8) {
            0 => (gen::log_uniform(r, 1, pa), 0),
            1 => (0, gen::log_uniform(r, 1, pb)),
            2 => (pa / 10 + 1, pb / 10 + 1),
            3 => (gen::log_uniform(r, pa, top.max(pa)), r.gen_range(0..2)),
            4 => (r.gen_range(0..2), gen::log_uniform(r, pb, top.max(pb))),
            5 => (gen::log_uniform(r, 1, top), gen::log_uniform(r, 1, top)),
            _ => (gen::log_uniform(r, 1, pa), gen::log_uniform(r, 1, pb)),
        };
        // reachable supplies: the first deposit mints D - 2000 and nothing afterwards lets the supply outgrow D
        let d0c = catch_unwind(AssertUnwindSafe(|| pairh::compute_d(&amp, Uint128::new(pa), Uint128::new(pb)))).ok().flatten()
            .and_then(|d| Uint128::try_from(d).ok()).map(|d| d.u128()).unwrap_or(pa + pb).max(4000);
        let supply = if r.gen_bool(0.4) { d0c - 2000 } else { gen::log_uniform(r, (d0c / 1000).max(2000), d0c) };
        let rr = catch_unwind(AssertUnwindSafe(|| pairh::compute_lp_mint_amount_for_stableswap_deposit(&amp, Uint128::new(xa), Uint128::new(xb), Uint128::new(pa), Uint128::new(pb), Uint128::new(supply))));
        let (res, minted) = match rr { Ok(Some(m)) => ("ok", m.u128()), Ok(None) => ("rejected", 0), Err(_) => ("aborted", 0) };
        rec.emit(json!({"ev": "st2dep", "run": run, "step": step,
            "args": {"pa": s(pa), "pb": s(pb), "xa": s(xa), "xb": s(xb), "S": s(supply), "amp": amp.to_string(), "da": d[0], "db": d[1]},
            "res": res, "out": {"minted": s(minted)}}));
    }
}

/// three-asset curve (hook: StableSwap): swap there and back, deposit mint, amplification ramp
pub fn st3_events(rec: &mut Rec, r: &mut StdRng, run: u64, n: usize) {
    use stableswap_3pool::verif_hooks::StableSwap;
    for step in 0..n {
        let amp: u64 = match r.gen_range(0..6) { 0 => 1, 1 => 1_000_000, 2 => 100, 3 => 2000, _ => gen::log_uniform(r, 1, 1_000_000) as u64 };
        let curve = StableSwap::new(amp, amp, 100, 0, 0);
        let top = 1u128 << 110;
        let base = gen::log_uniform(r, 1000, top);
        let rel = |r: &mut StdRng, b: u128| -> u128 { match r.gen_range(0..5) { 0 => b, 1 => (b / 2).max(1), 2 => (b / 1000).max(1), 3 => b.saturating_mul(3).min(top), _ => gen::log_uniform(r, 1, top) } };
        let (src, dst, uns) = (base, rel(r, base), rel(r, base));
        match r.gen_range(0..10) {
            0..=5 => {
                let amt = match r.gen_range(0..5) { 0 => 1, 1 => src, 2 => src / 100 + 1, _ => gen::log_uniform(r, 1, src.saturating_mul(2).min(top)) };
                let rr = catch_unwind(AssertUnwindSafe(|| curve.swap_to(Uint128::new(amt), Uint128::new(src), Uint128::new(dst), Uint128::new(uns))));
                let (res, dy) = match rr { Ok(Some(x)) => ("ok", x.amount_swapped.u128()), Ok(None) => ("rejected", 0), Err(_) => ("aborted", 0) };
                // straight back from the state after the first swap
                let (res2, dx) = if res == "ok" && dy > 0 && dy < dst {
                    let rr = catch_unwind(AssertUnwindSafe(|| curve.swap_to(Uint128::new(dy), Uint128::new(dst - dy), Uint128::new(src + amt), Uint128::new(uns))));
                    match rr { Ok(Some(x)) => ("ok", x.amount_swapped.u128()), Ok(None) => ("rejected", 0), Err(_) => ("aborted", 0) }
                } else { ("skipped", 0) };
                rec.emit(json!({"ev": "st3swap", "run": run, "step": step,
                    "args": {"src": s(src), "dst": s(dst), "uns": s(uns), "amt": s(amt), "amp": amp.to_string()},
                    "res": res, "out": {"dy": s(dy)}, "res2": res2, "out2": {"dx": s(dx)}}));
            }
            6..=8 => {
                let dep = |r: &mut StdRng, p: u128| -> u128 { match r.gen_range(0..6) { 0 => 0, 1 => p / 10 + 1, 2 => gen::log_uniform(r, p, top.max(p)), 3 => gen::log_uniform(r, 1, top), _ => gen::log_uniform(r, 1, p) } };
                let (xa, xb, xc) = (dep(r, src), dep(r, dst), dep(r, uns));
                // reachable supplies: the first deposit mints D - 3000 and nothing afterwards lets the supply outgrow D
                let d0c = catch_unwind(AssertUnwindSafe(|| curve.compute_d(Uint128::new(src), Uint128::new(dst), Uint128::new(uns)))).ok().flatten()
                    .and_then(|d| Uint128::try_from(d).ok()).map(|d| d.u128()).unwrap_or(src).max(6000);
                let supply = if r.gen_bool(0.4) { d0c - 3000 } else { gen::log_uniform(r, (d0c / 1000).max(3000), d0c) };
                let rr = catch_unwind(AssertUnwindSafe(|| curve.compute_mint_amount_for_deposit(Uint128::new(xa), Uint128::new(xb), Uint128::new(xc), Uint128::new(src), Uint128::new(dst), Uint128::new(uns), Uint128::new(supply))));
                let (res, minted) = match rr { Ok(Some(m)) => ("ok", m.u128()), Ok(None) => ("rejected", 0), Err(_) => ("aborted", 0) };
                rec.emit(json!({"ev": "st3dep", "run": run, "step": step,
                    "args": {"pa": s(src), "pb": s(dst), "pc": s(uns), "xa": s(xa), "xb": s(xb), "xc": s(xc), "S": s(supply), "amp": amp.to_string()},
                    "res": res, "out": {"minted": s(minted)}}));
            }
            _ => {
                let init: u64 = gen::log_uniform(r, 1, 1_000_000) as u64;
                let target: u64 = match r.gen_range(0..4) { 0 => init, 1 => (init * 10).min(1_000_000), 2 => (init / 10).max(1), _ => gen::log_uniform(r, 1, 1_000_000) as u64 };
                let start: u64 = r.gen_range(0..1_000_000);
                let stop: u64 = start + r.gen_range(1..200_000u64);
                let now: u64 = match r.gen_range(0..7) { 0 => start, 1 => start + 1, 2 => (start + stop) / 2, 3 => stop - 1, 4 => stop, 5 => stop + 1, _ => r.gen_range(start..=stop + 10) };
                let c2 = StableSwap::new(init, target, now, start, stop);
                let rr = catch_unwind(AssertUnwindSafe(|| c2.compute_amp_factor()));
                let (res, a) = match rr { Ok(Some(a)) => ("ok", a), Ok(None) => ("rejected", 0), Err(_) => ("aborted", 0) };
                rec.emit(json!({"ev": "amp", "run": run, "step": step,
                    "args": {"init": init.to_string(), "target": target.to_string(), "now": now.to_string(), "start": start.to_string(), "stop": stop.to_string()},
                    "res": res, "out": {"amp": a.to_string()}}));
            }
        }
    }
}

pub fn main(seed: u64, first: u64, runs: u64, nops: usize, out: &str, kind: &str) {
    let mut rec = Rec::create(out);
    for run in first..first + runs {
        let mut r = gen::rng(seed, run ^ 0x4d41_5448);
        rec.emit(json!({"ev": "reset", "suite": "math", "run": run, "seed": seed.to_string(), "ops": nops,
                        "extra": {"kind": kind}}));
        match kind {
            "cp" => cp_events(&mut rec, &mut r, run, nops),
            "spread" => spread_events(&mut rec, &mut r, run, nops),
            "weight" => weight_events(&mut rec, &mut r, run, nops),
            "st2" => { st2_swap_events(&mut rec, &mut r, run, nops * 2 / 3); st2_deposit_events(&mut rec, &mut r, run, nops / 3); }
            "st3" => st3_events(&mut rec, &mut r, run, nops),
            _ => {
                cp_events(&mut rec, &mut r, run, nops / 2);
                spread_events(&mut rec, &mut r, run, nops / 2);
            }
        }
    }
    let n = rec.finish();
    eprintln!("math[{kind}]: {runs} runs, {n} lines -> {out}");
}
