//! Lair suite (C08): bond / unbond / withdraw by three users over two whitelisted denoms and one
//! foreign denom, at scheduled block times.  Runs either TLC-generated schedules (every behaviour
//! of the bounded model up to a depth, so "two unbonds in one block" is enumerated) under several
//! magnitude tables, or a seeded random driver.
use std::io::BufRead;

use cosmwasm_std::{coin, Addr, Coin, Decimal, Uint128, Uint64};
use rand::rngs::StdRng;
use rand::Rng;
use serde_json::{json, Value};

use white_whale_std::epoch_manager::epoch_manager::EpochConfig;
use white_whale_std::pool_network::asset::{Asset, AssetInfo};
use white_whale_std::whale_lair::{
    BondedResponse, ExecuteMsg, QueryMsg, UnbondingResponse, WithdrawableResponse,
};

use crate::gen;
use crate::rec::Rec;
use crate::world::*;

pub const USERS: [&str; 3] = ["user1", "user2", "user3"];
pub const DENOMS: [&str; 3] = ["uwhale", "ubtc", "foreign"];
pub const PERIOD: u64 = 1_000_000_000_000; // 1000 s

pub struct LairRun {
    pub w: World,
    pub lair: Addr,
    pub distributor: Addr,
    pub users: Vec<Addr>,
}

impl World {
    pub fn new_lair(&mut self, period: u64, growth: Decimal, denoms: &[&str]) -> Addr {
        let a = cw_multi_test::Executor::instantiate_contract(
            &mut self.app,
            self.codes.whale_lair,
            self.owner.clone(),
            &white_whale_std::whale_lair::InstantiateMsg {
                unbonding_period: Uint64::new(period),
                growth_rate: growth,
                bonding_assets: denoms.iter().map(|d| AssetInfo::NativeToken { denom: d.to_string() }).collect(),
            },
            &[],
            "whale_lair",
            None,
        )
        .unwrap();
        self.register("lair", &a);
        a
    }

    pub fn new_fee_distributor(&mut self, lair: &Addr, collector: &Addr, grace: u64, duration: u64, genesis: u64, dist: &str) -> Addr {
        let a = cw_multi_test::Executor::instantiate_contract(
            &mut self.app,
            self.codes.fee_distributor,
            self.owner.clone(),
            &white_whale_std::fee_distributor::InstantiateMsg {
                bonding_contract_addr: lair.to_string(),
                fee_collector_addr: collector.to_string(),
                grace_period: Uint64::new(grace),
                epoch_config: EpochConfig { duration: Uint64::new(duration), genesis_epoch: Uint64::new(genesis) },
                distribution_asset: AssetInfo::NativeToken { denom: dist.to_string() },
            },
            &[],
            "fee_distributor",
            None,
        )
        .unwrap();
        self.register("distributor", &a);
        a
    }
}

impl LairRun {
    pub fn new(fund: u128) -> LairRun {
        let mut w = World::new();
        for d in DENOMS {
            w.add_denom(d);
        }
        let collector = w.new_fee_collector();
        let lair = w.new_lair(PERIOD, Decimal::permille(1), &[DENOMS[0], DENOMS[1]]);
        let now = w.now_nanos();
        let distributor = w.new_fee_distributor(&lair, &collector, 3, 86_400_000_000_000, now + 86_400_000_000_000 * 365, DENOMS[0]);
        w.exec(
            &w.owner.clone(),
            &lair,
            &ExecuteMsg::UpdateConfig { owner: None, unbonding_period: None, growth_rate: None, fee_distributor_addr: Some(distributor.to_string()) },
            &[],
        );
        let users: Vec<Addr> = USERS.iter().map(|u| w.add_account(u)).collect();
        for u in &users {
            for d in DENOMS {
                w.mint_native(u, d, fund);
            }
        }
        LairRun { w, lair, distributor, users }
    }

    pub fn obs(&self) -> Value {
        let w = &self.w;
        let mut bonded = serde_json::Map::new();
        let mut unb = serde_json::Map::new();
        let mut wd = serde_json::Map::new();
        let mut wal = serde_json::Map::new();
        for (i, u) in self.users.iter().enumerate() {
            let b: BondedResponse = w.query(&self.lair, &QueryMsg::Bonded { address: u.to_string() }).unwrap();
            let mut bm = serde_json::Map::new();
            let mut um = serde_json::Map::new();
            let mut wm = serde_json::Map::new();
            let mut xm = serde_json::Map::new();
            for d in DENOMS {
                let amt = b
                    .bonded_assets
                    .iter()
                    .find(|a| a.info == AssetInfo::NativeToken { denom: d.to_string() })
                    .map(|a| a.amount.u128())
                    .unwrap_or(0);
                bm.insert(d.to_string(), s(amt));
                let ur: UnbondingResponse = w
                    .query(&self.lair, &QueryMsg::Unbonding { address: u.to_string(), denom: d.to_string(), start_after: None, limit: Some(30) })
                    .unwrap();
                // the same records read page by page (one per page, each page starting after the previous record's time)
                let mut paged: Vec<Value> = vec![];
                let mut after: Option<u64> = None;
                for _ in 0..30 {
                    let pr: Result<UnbondingResponse, _> = w.query(&self.lair, &QueryMsg::Unbonding { address: u.to_string(), denom: d.to_string(), start_after: after, limit: Some(1) });
                    match pr { Ok(pg) if !pg.unbonding_requests.is_empty() => {
                            let r0 = &pg.unbonding_requests[0];
                            paged.push(json!({"t": r0.timestamp.nanos().to_string(), "amt": s(r0.asset.amount.u128())}));
                            after = Some(r0.timestamp.nanos()); }
                        _ => break }
                }
                um.insert(
                    d.to_string(),
                    json!({"total": s(ur.total_amount.u128()), "n": ur.unbonding_requests.len(), "paged": paged,
                           "recs": ur.unbonding_requests.iter().map(|r| json!({"t": r.timestamp.nanos().to_string(), "amt": s(r.asset.amount.u128())})).collect::<Vec<_>>()}),
                );
                let wr: WithdrawableResponse = w.query(&self.lair, &QueryMsg::Withdrawable { address: u.to_string(), denom: d.to_string() }).unwrap();
                wm.insert(d.to_string(), s(wr.withdrawable_amount.u128()));
                xm.insert(d.to_string(), s(w.balance(u, &A::Native(d.to_string()))));
            }
            bonded.insert(USERS[i].into(), Value::Object(bm));
            unb.insert(USERS[i].into(), Value::Object(um));
            wd.insert(USERS[i].into(), Value::Object(wm));
            wal.insert(USERS[i].into(), Value::Object(xm));
        }
        let tb: BondedResponse = w.query(&self.lair, &QueryMsg::TotalBonded {}).unwrap();
        let mut cb = serde_json::Map::new();
        let mut tba = serde_json::Map::new();
        for d in DENOMS {
            cb.insert(d.to_string(), s(w.balance(&self.lair, &A::Native(d.to_string()))));
            tba.insert(
                d.to_string(),
                s(tb.bonded_assets.iter().find(|a| a.info == AssetInfo::NativeToken { denom: d.to_string() }).map(|a| a.amount.u128()).unwrap_or(0)),
            );
        }
        // bonding weights as the lair reports them now (what the fee distributor uses to split an epoch)
        let mut wq = serde_json::Map::new();
        for (i, u) in self.users.iter().enumerate() {
            let r: Result<white_whale_std::whale_lair::BondingWeightResponse, _> = w.query(&self.lair, &QueryMsg::Weight { address: u.to_string(), timestamp: None, global_index: None });
            wq.insert(USERS[i].into(), match r {
                Ok(x) => json!({"res": "ok", "weight": s(x.weight.u128()), "global": s(x.global_weight.u128()), "share": s(x.share.atomics().u128())}),
                Err(_) => json!({"res": "none", "weight": "0", "global": "0", "share": "0"}) });
        }
        json!({"weights": Value::Object(wq), "bonded": Value::Object(bonded), "unb": Value::Object(unb), "withdrawable": Value::Object(wd),
               "w": Value::Object(wal), "cbal": Value::Object(cb), "total": s(tb.total_bonded.u128()),
               "totalBy": Value::Object(tba), "now": w.now_nanos().to_string()})
    }

    fn asset(d: &str, amt: u128) -> Asset {
        Asset { info: AssetInfo::NativeToken { denom: d.to_string() }, amount: Uint128::new(amt) }
    }

    /// one recorded operation
    pub fn step(&mut self, rec: &mut Rec, run: u64, step: usize, op: &str, ui: usize, d: &str, amt: u128, funds: Vec<Coin>, dt: u64) {
        let u = self.users[ui].clone();
        let mut ev = serde_json::Map::new();
        ev.insert("run".into(), json!(run));
        ev.insert("step".into(), json!(step));
        ev.insert("ev".into(), json!(op));
        ev.insert("actor".into(), json!(USERS[ui]));
        if op == "tick" {
            self.w.advance(dt, 1);
            ev.insert("args".into(), json!({"dt": dt.to_string()}));
            ev.insert("res".into(), json!("ok"));
            ev.insert("err".into(), json!(""));
            ev.insert("out".into(), json!({"paid": "0"}));
            ev.insert("dpre".into(), json!(""));
            ev.insert("dpost".into(), json!(""));
        } else {
            let before = self.w.balance(&u, &A::Native(d.to_string()));
            let dpre = self.w.digest();
            let rs = match op {
                "bond" => self.w.exec(&u, &self.lair.clone(), &ExecuteMsg::Bond { asset: Self::asset(d, amt) }, &funds),
                "unbond" => self.w.exec(&u, &self.lair.clone(), &ExecuteMsg::Unbond { asset: Self::asset(d, amt) }, &[]),
                _ => self.w.exec(&u, &self.lair.clone(), &ExecuteMsg::Withdraw { denom: d.to_string() }, &[]),
            };
            let dpost = self.w.digest();
            let after = self.w.balance(&u, &A::Native(d.to_string()));
            ev.insert(
                "args".into(),
                json!({"d": d, "amt": s(amt),
                       "funds": funds.iter().map(|c| json!({"d": c.denom, "amt": s(c.amount.u128())})).collect::<Vec<_>>()}),
            );
            ev.insert("res".into(), json!(rs.tag()));
            ev.insert("err".into(), jerr(&rs.err()));
            ev.insert("out".into(), json!({"paid": s(after.saturating_sub(before)),
                                           "attr": rs.any_attr("refund_amount").unwrap_or("none".into())}));
            ev.insert("dpre".into(), json!(dpre));
            ev.insert("dpost".into(), json!(dpost));
        }
        ev.insert("obs".into(), self.obs());
        rec.emit(Value::Object(ev));
    }
}

fn reset(rec: &mut Rec, p: &LairRun, seed: u64, run: u64, nops: usize, sched: Option<(&str, usize)>) {
    let (sv, table) = match sched {
        Some((l, t)) => (serde_json::from_str::<Value>(l).unwrap(), t),
        None => (Value::Null, 0),
    };
    let mut base = json!({"ev": "reset", "suite": "lair", "run": run, "seed": seed.to_string(), "ops": nops,
        "table": table});
    if !sv.is_null() {
        base.as_object_mut().unwrap().insert("sched".into(), sv);
    }
    let mut rest = json!({
        "cfg": {"period": PERIOD.to_string(), "white": [DENOMS[0], DENOMS[1]], "growth": Decimal::permille(1).atomics().to_string()},
        "obs": p.obs()});
    base.as_object_mut().unwrap().append(rest.as_object_mut().unwrap());
    rec.emit(base);
}

/// magnitude tables for schedule amounts (class 1, 2)
const TABLES: [[u128; 2]; 4] = [[1, 2], [1_000_000, 2_500_000], [1u128 << 64, (1u128 << 64) + 1], [1u128 << 100, 3u128 << 100]];

pub fn run_schedule(rec: &mut Rec, seed: u64, run: u64, line: &str, table: usize) {
    let v: Value = serde_json::from_str(line).unwrap();
    let ops = v["ops"].as_array().unwrap();
    let mut p = LairRun::new(1u128 << 110);
    reset(rec, &p, seed, run, ops.len(), Some((line, table)));
    for (i, o) in ops.iter().enumerate() {
        let op = o["op"].as_str().unwrap();
        let ui = match o["u"].as_str().unwrap() { "u1" => 0, "u2" => 1, "u3" => 2, _ => 0 };
        let d = match o["d"].as_str().unwrap() { "d1" => DENOMS[0], "d2" => DENOMS[1], "foreign" => DENOMS[2], _ => DENOMS[0] };
        let a = o["a"].as_u64().unwrap();
        if op == "tick" {
            // model time: period = 3; 1 -> +1 ns, 2 -> period - 1 ns, 3 -> period
            let dt = match a { 1 => 1, 2 => PERIOD - 1, _ => PERIOD };
            p.step(rec, run, i, "tick", 0, "", 0, vec![], dt);
        } else {
            let amt = TABLES[table][(a as usize).saturating_sub(1).min(1)];
            let funds = if op == "bond" { vec![coin(amt, d)] } else { vec![] };
            p.step(rec, run, i, op, ui, d, amt, funds, 0);
        }
    }
}

pub fn run_random(rec: &mut Rec, seed: u64, run: u64, nops: usize) {
    let mut r: StdRng = gen::rng(seed, run ^ 0x4c41_4952);
    let mut p = LairRun::new(1u128 << 110);
    reset(rec, &p, seed, run, nops, None);
    let scale = *gen::pick(&mut r, &[1_000u128, 1_000_000_000, 1u128 << 64, 1u128 << 100]);
    for step in 0..nops {
        let ui = r.gen_range(0..3usize);
        let d = DENOMS[*gen::pick(&mut r, &[0usize, 0, 0, 1, 1, 2])];
        match r.gen_range(0..100) {
            0..=29 => {
                let amt = gen::amount(&mut r, scale);
                // funds variants: exact, wrong amount, wrong denom, two coins, none
                let funds = match r.gen_range(0..10) {
                    0 => vec![coin(amt + 1, d)],
                    1 => vec![coin(amt, DENOMS[(DENOMS.iter().position(|x| *x == d).unwrap() + 1) % 3])],
                    2 => {
                        let mut f = vec![coin(amt, d), coin(1, DENOMS[(DENOMS.iter().position(|x| *x == d).unwrap() + 1) % 3])];
                        f.sort_by(|a, b| a.denom.cmp(&b.denom));
                        f
                    }
                    3 => vec![],
                    _ => vec![coin(amt, d)],
                };
                p.step(rec, run, step, "bond", ui, d, amt, funds, 0);
            }
            30..=54 => {
                let b: BondedResponse = p.w.query(&p.lair, &QueryMsg::Bonded { address: p.users[ui].to_string() }).unwrap();
                let have = b.bonded_assets.iter().find(|a| a.info == AssetInfo::NativeToken { denom: d.to_string() }).map(|a| a.amount.u128()).unwrap_or(0);
                let amt = match r.gen_range(0..6) { 0 => have, 1 => have + 1, 2 => 0, _ => gen::amount(&mut r, have.max(1)) };
                p.step(rec, run, step, "unbond", ui, d, amt, vec![], 0);
            }
            55..=74 => p.step(rec, run, step, "withdraw", ui, d, 0, vec![], 0),
            _ => {
                let dt = *gen::pick(&mut r, &[1u64, 1, PERIOD - 1, PERIOD, PERIOD, PERIOD + 1, 5_000_000_000, PERIOD / 2]);
                p.step(rec, run, step, "tick", 0, "", 0, vec![], dt);
            }
        }
    }
}

pub fn main(seed: u64, first: u64, runs: u64, nops: usize, out: &str, sched: Option<&String>, table: Option<usize>) {
    let mut rec = Rec::create(out);
    if let Some(path) = sched {
        let f = std::io::BufReader::new(std::fs::File::open(path).expect("schedule file"));
        let lines: Vec<String> = f.lines().map(|l| l.unwrap()).filter(|l| !l.trim().is_empty()).collect();
        let mut run = first;
        for (i, line) in lines.iter().enumerate() {
            if runs > 0 && (i as u64) >= runs {
                break;
            }
            run_schedule(&mut rec, seed, run, line, table.unwrap_or(((seed as usize) + i) % TABLES.len()));
            run += 1;
        }
    } else {
        for run in first..first + runs {
            run_random(&mut rec, seed, run, nops);
        }
    }
    let n = rec.finish();
    eprintln!("lair: {n} lines -> {out}");
}
