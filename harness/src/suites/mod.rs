pub mod pool;
pub mod math;
pub mod vault;
pub mod lair;
pub mod epochs;
pub mod access;
pub mod toggles;
pub mod config;
