pub mod pool;
pub mod math;
