pub mod pool;
