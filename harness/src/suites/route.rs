//! Route suite (router clauses of C15 and C14): 1..3-hop routes through the real router over a chain of three real
//! pairs (native / cw20 assets, either direction), with minimum_receive drawn around the simulated amount, receivers
//! that differ from the sender and hold their own balances, pending protocol fees in the pools, and (labelled) stray
//! funds on the router.  A request rejected with a minimum is retried at once without one, in the unchanged state,
//! which tells what the receiver would have got.
use cosmwasm_std::{coin, Addr, Uint128};
use rand::Rng;
use serde_json::{json, Value};

use white_whale_std::pool_network::asset::PairType;
use white_whale_std::pool_network::pair::ExecuteMsg as PairExec;
use white_whale_std::pool_network::router::{Cw20HookMsg as RouterHook, ExecuteMsg as RouterExec, QueryMsg as RouterQuery, SimulateSwapOperationsResponse, SwapOperation};

use crate::full::*;
use crate::gen;
use crate::rec::Rec;
use crate::world::*;

fn hop(a: &A, b: &A) -> SwapOperation {
    SwapOperation::TerraSwap { offer_asset_info: a.info(), ask_asset_info: b.info() }
}

pub fn run_random(rec: &mut Rec, seed: u64, run: u64, nops: usize) {
    let mut r = gen::rng(seed, run ^ 0x524f_5554);
    let mut f = Full::new(true);
    let fee_choices: [u128; 5] = [0, ONE / 1000, ONE / 500, ONE / 100, ONE / 20];
    let pf = pool_fee(dec_atomics(*gen::pick(&mut r, &fee_choices)), dec_atomics(*gen::pick(&mut r, &fee_choices)), dec_atomics(*gen::pick(&mut r, &fee_choices)));
    let chain: Vec<A> = vec![f.whale.clone(), f.usdc.clone(), f.tka.clone(), f.atom.clone()];
    let names = ["whale", "usdc", "tka", "atom"];
    let (pair3, _) = f.w.create_pair(&f.hub.pool_factory.clone(), [&chain[2], &chain[3]], pf, PairType::ConstantProduct, "pair3").unwrap();
    let lp = f.lp_user.clone();
    let rs = f.w.provide_pair(&lp, &pair3, [&chain[2], &chain[3]], [2_000_000_000, 1_000_000_000]);
    assert!(rs.is_ok(), "{}", rs.err());
    let pairs = [f.pair1.clone(), f.pair2.clone(), pair3.clone()];
    let user = f.user.clone();
    let rcv1 = f.w.add_account("rcv1");
    let rcv0 = f.w.add_account("rcv0");
    // the receiver's own balances differ per asset and from the sender's
    for (i, a) in chain.iter().enumerate() {
        f.w.fund(&rcv1, a, [5_000_000_000_000_000u128, 7, 123_456_789, 2_000_000_000_000_000][(i + run as usize) % 4]);
    }
    let router = f.hub.pool_router.clone();
    rec.emit(json!({"ev": "reset", "suite": "route", "run": run, "seed": seed.to_string(), "ops": nops}));
    for step in 0..nops {
        let mut ev = serde_json::Map::new();
        ev.insert("run".into(), json!(run));
        ev.insert("step".into(), json!(step));
        let c = r.gen_range(0..100);
        if c < 72 {
            let a = r.gen_range(0..4usize);
            let mut b = r.gen_range(0..4usize);
            if a == b { b = (a + 1) % 4; }
            let path: Vec<usize> = if a < b { (a..=b).collect() } else { (b..=a).rev().collect() };
            let ops: Vec<SwapOperation> = path.windows(2).map(|w| hop(&chain[w[0]], &chain[w[1]])).collect();
            let offer = match r.gen_range(0..4) { 0 => gen::log_uniform(&mut r, 1, 2000), _ => gen::log_uniform(&mut r, 1000, 60_000_000) };
            let sim: Result<SimulateSwapOperationsResponse, String> = f.w.query(&router, &RouterQuery::SimulateSwapOperations { offer_amount: Uint128::new(offer), operations: ops.clone() });
            let simv = sim.as_ref().map(|x| x.amount.u128()).unwrap_or(0);
            let (to, to_name): (Option<Addr>, &str) = match r.gen_range(0..10) { 0..=3 => (None, "none"), 4..=7 => (Some(rcv1.clone()), "rcv1"), 8 => (Some(rcv0.clone()), "rcv0"), _ => (Some(user.clone()), "sender") };
            let receiver = to.clone().unwrap_or(user.clone());
            let fin = &chain[b];
            let (rcv_pre, snd_pre) = (f.w.balance(&receiver, fin), f.w.balance(&user, fin));
            let min: Option<u128> = match r.gen_range(0..10) {
                0..=1 => None, 2 => Some(simv.saturating_sub(1)), 3..=4 => Some(simv), 5..=6 => Some(simv + 1), 7 => Some(simv / 2),
                8 => Some(simv + gen::log_uniform(&mut r, 1, simv.max(2))), _ => Some(gen::log_uniform(&mut r, 1, simv.max(2) * 2)) };
            let stray = (0..4).any(|i| f.w.balance(&router, &chain[i]) > 0);
            let send = |f: &mut Full, min: Option<u128>| -> Res {
                match &chain[a] {
                    A::Native(d) => f.w.exec(&user, &router, &RouterExec::ExecuteSwapOperations { operations: ops.clone(), minimum_receive: min.map(Uint128::new), to: to.clone().map(|x| x.to_string()), max_spread: Some(dec("0.5")) }, &[coin(offer, d.as_str())]),
                    A::Cw20(t) => f.w.cw20_send(&user, &t.clone(), &router, offer, &RouterHook::ExecuteSwapOperations { operations: ops.clone(), minimum_receive: min.map(Uint128::new), to: to.clone().map(|x| x.to_string()), max_spread: Some(dec("0.5")) }),
                }
            };
            let dpre = f.w.digest();
            let rs = send(&mut f, min);
            let dpost = f.w.digest();
            let gain = f.w.balance(&receiver, fin) as i128 - rcv_pre as i128;
            let retry = if !rs.is_ok() && min.is_some() {
                let r2 = send(&mut f, None);
                let g2 = f.w.balance(&receiver, fin) as i128 - rcv_pre as i128;
                json!({"res": r2.tag(), "gain": g2.to_string(), "err": jerr(&r2.err())})
            } else { json!({"res": "none", "gain": "0"}) };
            ev.insert("ev".into(), json!("route"));
            ev.insert("actor".into(), json!("user1"));
            ev.insert("args".into(), json!({"hops": ops.len(), "path": path.iter().map(|i| names[*i]).collect::<Vec<_>>(), "offer": s(offer),
                "min": min.map(s).unwrap_or(json!("none")), "to": to_name, "stray": stray,
                "sim": {"res": if sim.is_ok() { "ok" } else { "rejected" }, "amount": s(simv)}}));
            ev.insert("pre".into(), json!({"rcv": s(rcv_pre), "snd": s(snd_pre)}));
            ev.insert("out".into(), json!({"gain": gain.to_string()}));
            ev.insert("retry".into(), retry);
            ev.insert("res".into(), json!(rs.tag()));
            ev.insert("err".into(), jerr(&rs.err()));
            ev.insert("dpre".into(), json!(dpre));
            ev.insert("dpost".into(), json!(dpost));
        } else if c < 90 {
            // move a pool (and leave protocol fees pending in it)
            let k = r.gen_range(0..3usize);
            let dir = r.gen_bool(0.5);
            let (x, y) = if dir { (k, k + 1) } else { (k + 1, k) };
            let _ = y;
            let amt = gen::log_uniform(&mut r, 1000, 200_000_000);
            let rs = match &chain[x] {
                A::Native(d) => f.w.exec(&lp, &pairs[k], &PairExec::Swap { offer_asset: chain[x].asset(amt), belief_price: None, max_spread: Some(dec("0.5")), to: None }, &[coin(amt, d.as_str())]),
                A::Cw20(t) => f.w.cw20_send(&lp, &t.clone(), &pairs[k], amt, &white_whale_std::pool_network::pair::Cw20HookMsg::Swap { belief_price: None, max_spread: Some(dec("0.5")), to: None }),
            };
            ev.insert("ev".into(), json!("move"));
            ev.insert("actor".into(), json!("lpuser"));
            ev.insert("args".into(), json!({"pair": k + 1, "offer": names[x], "amt": s(amt)}));
            ev.insert("res".into(), json!(rs.tag()));
            ev.insert("err".into(), jerr(&rs.err()));
        } else if c < 95 {
            let k = r.gen_range(0..3usize);
            let rs = f.w.exec(&lp, &pairs[k], &PairExec::CollectProtocolFees {}, &[]);
            ev.insert("ev".into(), json!("collect"));
            ev.insert("actor".into(), json!("lpuser"));
            ev.insert("args".into(), json!({"pair": k + 1}));
            ev.insert("res".into(), json!(rs.tag()));
            ev.insert("err".into(), jerr(&rs.err()));
        } else {
            // stray funds on the router (anyone can send them)
            let i = r.gen_range(0..4usize);
            let amt = gen::log_uniform(&mut r, 1, 1_000_000);
            f.w.fund(&router, &chain[i], amt);
            ev.insert("ev".into(), json!("stray"));
            ev.insert("actor".into(), json!("lpuser"));
            ev.insert("args".into(), json!({"asset": names[i], "amt": s(amt)}));
            ev.insert("res".into(), json!("ok"));
            ev.insert("err".into(), json!(""));
        }
        rec.emit(Value::Object(ev));
    }
}

pub fn main(seed: u64, first: u64, runs: u64, nops: usize, out: &str) {
    let mut rec = Rec::create(out);
    for run in first..first + runs { run_random(&mut rec, seed, run, nops); }
    let n = rec.finish();
    eprintln!("route: {n} lines -> {out}");
}
