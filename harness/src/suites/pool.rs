//! Pool suite: histories of provide / withdraw / swap / collect / fee changes / donations /
//! LP transfers by three users on a real terraswap_pair created through the real factory.
//! One event per top-level message, with pre-state quotes (C14), outcomes from response
//! attributes and the full projected post-state.  Serves C01, C02 (executed swaps), C07 (pair),
//! C14 (pair), C15 (swap / deposit slippage), C18 (pool fees through the factory).
use cosmwasm_std::{coin, Addr, Coin, Decimal, Uint128};
use rand::rngs::StdRng;
use rand::Rng;
use serde_json::{json, Value};

use white_whale_std::pool_network::asset::PairType;
use white_whale_std::pool_network::pair::{
    ConfigResponse, Cw20HookMsg, ExecuteMsg, PoolResponse, ProtocolFeesResponse, QueryMsg,
    SimulationResponse,
};

use crate::gen;
use crate::rec::Rec;
use crate::world::*;

pub struct PoolRun {
    pub w: World,
    pub assets: [A; 2],
    pub pair: Addr,
    pub lp: Addr,
    pub factory: Addr,
    pub collector: Addr,
    pub users: Vec<Addr>,
    pub ptype: PairType,
    pub wrong_path: bool,
    /// what the next native swap attaches (see `swap`); reset to 0 by every swap
    pub funds_mode: u8,
    /// the pair was instantiated directly (owner = the test's owner), not through the factory
    pub direct: bool,
}

pub const USERS: [&str; 3] = ["user1", "user2", "user3"];

fn dec_to_atomics(d: Decimal) -> u128 {
    d.atomics().u128()
}

impl PoolRun {
    pub fn new(kinds: [bool; 2], decimals: [u8; 2], fees: [u128; 3], ptype: PairType, fund: u128) -> PoolRun { PoolRun::new_spelled(kinds, decimals, fees, ptype, fund, 0) }

    /// `spelling` 1: the pair's native assets are denoms with upper-case letters; 2: token-factory denoms
    /// (`factory/<creator>/<subdenom>` - in the default build the pool treats them as any other native coin, burn included)
    pub fn new_spelled(kinds: [bool; 2], decimals: [u8; 2], fees: [u128; 3], ptype: PairType, fund: u128, spelling: u8) -> PoolRun {
        let upper = spelling == 1;
        let mut w = World::new();
        let collector = w.new_fee_collector();
        let factory = w.new_pool_factory(&collector);
        let mut assets: Vec<A> = vec![];
        for i in 0..2 {
            if kinds[i] {
                // (`upper`: native denoms with upper-case letters, as IBC and liquid-staking denoms have)
                let d = if spelling == 2 { if i == 0 { "factory/migaloo1cxfsp0hg8qv8y7zf3h5vd42fxmg7dfwfhzc3kd/uwh" } else { "factory/migaloo1cxfsp0hg8qv8y7zf3h5vd42fxmg7dfwfhzc3kd/uus" } }
                        else if i == 0 { if upper { "ampWHALE" } else { "uwhale" } } else if upper { "ibc/27394FB092D2ECCD56123C74F36E4C1F926001CEADA9CA97EA622B25F41E5EB2" } else { "uusdc" };
                let a = w.add_denom(d);
                w.factory_add_native(&factory, d, decimals[i]);
                assets.push(a);
            } else {
                let (n, sy) = if i == 0 { ("tokena", "TKA") } else { ("tokenb", "TKB") };
                assets.push(w.add_cw20(n, sy, decimals[i]));
            }
        }
        let users: Vec<Addr> = USERS.iter().map(|u| w.add_account(u)).collect();
        for u in &users {
            for a in &assets {
                w.fund(u, a, fund);
            }
        }
        let pf = pool_fee(dec_atomics(fees[0]), dec_atomics(fees[1]), dec_atomics(fees[2]));
        let (pair, lp) = w
            .create_pair(&factory, [&assets[0], &assets[1]], pf, ptype.clone(), "pair")
            .expect("create pair");
        PoolRun {
            w,
            assets: [assets[0].clone(), assets[1].clone()],
            pair,
            lp,
            factory,
            collector,
            users,
            ptype,
            wrong_path: false,
            funds_mode: 0,
            direct: false,
        }
    }

    /// The same pool, but instantiated directly - the way the factory would, except that cw20 assets are spelled in upper
    /// case (a valid spelling of the same address, which the factory does not accept) - and owned by the test's owner.
    pub fn new_direct(kinds: [bool; 2], decimals: [u8; 2], fees: [u128; 3], ptype: PairType, fund: u128) -> PoolRun {
        let mut p = PoolRun::new(kinds, decimals, fees, ptype.clone(), fund);
        let sp = |a: &A| match a.info() {
            white_whale_std::pool_network::asset::AssetInfo::Token { contract_addr } => white_whale_std::pool_network::asset::AssetInfo::Token { contract_addr: contract_addr.to_uppercase() },
            x => x };
        let pf = pool_fee(dec_atomics(fees[0]), dec_atomics(fees[1]), dec_atomics(fees[2]));
        let owner = p.w.owner.clone();
        let r = cw_multi_test::Executor::instantiate_contract(&mut p.w.app, p.w.codes.pair, owner.clone(),
            &white_whale_std::pool_network::pair::InstantiateMsg { asset_infos: [sp(&p.assets[0]), sp(&p.assets[1])], token_code_id: p.w.codes.token,
                asset_decimals: decimals, pool_fees: pf, fee_collector_addr: p.collector.to_string(), pair_type: ptype, token_factory_lp: false },
            &[], "pair_direct", None);
        let pair = match r { Ok(a) => a, Err(_) => return p };      // (refused: keep the factory's pair)
        let info: white_whale_std::pool_network::asset::PairInfo = p.w.query(&pair, &QueryMsg::Pair {}).unwrap();
        let lp = match info.liquidity_token { white_whale_std::pool_network::asset::AssetInfo::Token { contract_addr } => Addr::unchecked(contract_addr), _ => return p };
        p.w.register("pair_direct", &pair);
        p.w.register("pair_direct_lp", &lp);
        p.w.tokens.push(lp.clone());
        p.pair = pair; p.lp = lp; p.direct = true;
        p
    }

    /// the owner's update of fees / switches: through the factory, or straight to a directly instantiated pair
    pub fn owner_update(&mut self, sender: &Addr, fees: Option<white_whale_std::pool_network::pair::PoolFee>, tog: Option<white_whale_std::pool_network::pair::FeatureToggle>) -> Res {
        if self.direct {
            self.w.exec(sender, &self.pair.clone(), &ExecuteMsg::UpdateConfig { owner: None, fee_collector_addr: None, pool_fees: fees, feature_toggle: tog }, &[])
        } else {
            self.w.exec(sender, &self.factory.clone(), &white_whale_std::pool_network::factory::ExecuteMsg::UpdatePairConfig {
                pair_addr: self.pair.to_string(), owner: None, fee_collector_addr: None, pool_fees: fees, feature_toggle: tog }, &[])
        }
    }

    pub fn user(&self, i: usize) -> Addr {
        self.users[i].clone()
    }

    fn fee_vec(&self, msg: &QueryMsg) -> Vec<u128> {
        let r: ProtocolFeesResponse = self.w.query(&self.pair, msg).unwrap();
        // order as the pair's assets
        self.assets
            .iter()
            .map(|a| {
                r.fees
                    .iter()
                    .find(|f| f.info == a.info())
                    .map(|f| f.amount.u128())
                    .unwrap_or(0)
            })
            .collect()
    }

    pub fn obs(&self) -> Value {
        let w = &self.w;
        let bal: Vec<u128> = self.assets.iter().map(|a| w.balance(&self.pair, a)).collect();
        let (res, sq) = match w.query::<PoolResponse, _>(&self.pair, &QueryMsg::Pool {}) {
            Ok(p) => (
                self.assets
                    .iter()
                    .map(|a| p.assets.iter().find(|x| x.info == a.info()).unwrap().amount.u128())
                    .map(|x| s(x))
                    .collect::<Vec<_>>(),
                s(p.total_share.u128()),
            ),
            Err(_) => (vec![json!("err"), json!("err")], json!("err")),
        };
        let fee = self.fee_vec(&QueryMsg::ProtocolFees { asset_id: None, all_time: Some(false) });
        let fee_all = self.fee_vec(&QueryMsg::ProtocolFees { asset_id: None, all_time: Some(true) });
        let burned = self.fee_vec(&QueryMsg::BurnedFees { asset_id: None });
        let lp = A::Cw20(self.lp.clone());
        let mut lpm = serde_json::Map::new();
        lpm.insert("pair".into(), s(w.balance(&self.pair, &lp)));
        let mut wm = serde_json::Map::new();
        for (i, u) in self.users.iter().enumerate() {
            lpm.insert(USERS[i].into(), s(w.balance(u, &lp)));
            wm.insert(
                USERS[i].into(),
                sv(&[w.balance(u, &self.assets[0]), w.balance(u, &self.assets[1])]),
            );
        }
        let col: Vec<u128> = self.assets.iter().map(|a| w.balance(&self.collector, a)).collect();
        let circ: Vec<u128> = self.assets.iter().map(|a| w.supply(a)).collect();
        let cfg: ConfigResponse = w.query(&self.pair, &QueryMsg::Config {}).unwrap();
        json!({
            "bal": sv(&bal), "res": res, "S": s(w.cw20_supply(&self.lp)), "Sq": sq,
            "fee": sv(&fee), "feeAll": sv(&fee_all), "burned": sv(&burned),
            "lp": Value::Object(lpm), "w": Value::Object(wm), "col": sv(&col), "circ": sv(&circ),
            "fees": {"p": s(dec_to_atomics(cfg.pool_fees.protocol_fee.share)),
                     "s": s(dec_to_atomics(cfg.pool_fees.swap_fee.share)),
                     "b": s(dec_to_atomics(cfg.pool_fees.burn_fee.share))},
            "tog": {"d": cfg.feature_toggle.deposits_enabled, "w": cfg.feature_toggle.withdrawals_enabled,
                    "s": cfg.feature_toggle.swaps_enabled},
        })
    }

    pub fn reserves(&self) -> [u128; 2] {
        match self.w.query::<PoolResponse, _>(&self.pair, &QueryMsg::Pool {}) {
            Ok(p) => [
                p.assets.iter().find(|x| x.info == self.assets[0].info()).unwrap().amount.u128(),
                p.assets.iter().find(|x| x.info == self.assets[1].info()).unwrap().amount.u128(),
            ],
            Err(_) => [0, 0],
        }
    }

    pub fn simulate(&self, dir: usize, offer: u128) -> Value {
        match self.w.query::<SimulationResponse, _>(
            &self.pair,
            &QueryMsg::Simulation { offer_asset: self.assets[dir].asset(offer) },
        ) {
            Ok(r) => json!({"res": "ok", "ret": s(r.return_amount.u128()), "spread": s(r.spread_amount.u128()),
                "sf": s(r.swap_fee_amount.u128()), "pf": s(r.protocol_fee_amount.u128()),
                "bf": s(r.burn_fee_amount.u128())}),
            Err(e) => json!({"res": if e.starts_with("PANIC") {"aborted"} else {"rejected"},
                "ret": "0", "spread": "0", "sf": "0", "pf": "0", "bf": "0", "err": jerr(&e)}),
        }
    }

    /// ReverseSimulation for `ask` units of the asset opposite to `dir`, and what the offer it names would buy
    pub fn reverse_simulate(&self, dir: usize, ask: u128) -> Value {
        match self.w.query::<white_whale_std::pool_network::pair::ReverseSimulationResponse, _>(
            &self.pair, &QueryMsg::ReverseSimulation { ask_asset: self.assets[1 - dir].asset(ask) }) {
            Ok(r) => { let fwd = self.simulate(dir, r.offer_amount.u128());
                json!({"res": "ok", "ask": s(ask), "offer": s(r.offer_amount.u128()), "fwd": fwd["ret"], "fwd_res": fwd["res"]}) }
            Err(_) => json!({"res": "rejected", "ask": s(ask), "offer": "0", "fwd": "0", "fwd_res": "rejected"}),
        }
    }

    /// `rev`: the caller lists the two assets in the reverse of the pair's own order (the same deposit)
    pub fn provide(&mut self, ui: usize, d: [u128; 2], recv: usize, slip: Option<u128>, rev: bool) -> (Res, String, String) {
        let u = self.user(ui);
        let mut funds: Vec<Coin> = vec![];
        for i in 0..2 {
            match &self.assets[i] {
                A::Native(dn) => {
                    if d[i] > 0 {
                        funds.push(coin(d[i], dn.clone()))
                    }
                }
                A::Cw20(t) => self.w.set_allowance(&u, &t.clone(), &self.pair.clone(), d[i]),
            }
        }
        funds.sort_by(|a, b| a.denom.cmp(&b.denom));
        let msg = ExecuteMsg::ProvideLiquidity {
            assets: if rev { [self.assets[1].asset(d[1]), self.assets[0].asset(d[0])] } else { [self.assets[0].asset(d[0]), self.assets[1].asset(d[1])] },
            slippage_tolerance: slip.map(dec_atomics),
            receiver: if recv == ui { None } else { Some(self.users[recv].to_string()) },
        };
        let dpre = self.w.digest();
        let r = self.w.exec(&u, &self.pair.clone(), &msg, &funds);
        let dpost = self.w.digest();
        (r, dpre, dpost)
    }

    pub fn withdraw(&mut self, ui: usize, amt: u128) -> (Res, String, String) {
        let u = self.user(ui);
        let dpre = self.w.digest();
        let r = self.w.cw20_send(&u, &self.lp.clone(), &self.pair.clone(), amt, &Cw20HookMsg::WithdrawLiquidity {});
        let dpost = self.w.digest();
        (r, dpre, dpost)
    }

    pub fn swap(
        &mut self,
        ui: usize,
        dir: usize,
        offer: u128,
        to: usize,
        max_spread: Option<u128>,
        belief: Option<u128>,
    ) -> (Res, String, String) {
        let u = self.user(ui);
        // recipient 3 is the pool's fee collector (a swap paid out to it is a swap like any other: pause switches included)
        let to_s = if to == ui { None } else if to == 3 { Some(self.collector.to_string()) } else { Some(self.users[to].to_string()) };
        let dpre = self.w.digest();
        // `wrong_path`: a cw20 offer named in the DIRECT swap message (which is for native offers only), with a coin of the
        // pair's other asset (or nothing) attached instead of the tokens: nothing is paid in, so it must be refused
        if self.wrong_path {
            self.wrong_path = false;
            if let A::Cw20(_) = self.assets[dir].clone() {
                let funds: Vec<Coin> = match self.assets[1 - dir].clone() { A::Native(dn) => vec![coin(1, dn)], _ => vec![] };
                let r = self.w.exec(&u, &self.pair.clone(), &ExecuteMsg::Swap { offer_asset: self.assets[dir].asset(offer),
                    belief_price: belief.map(dec_atomics), max_spread: max_spread.map(dec_atomics), to: to_s }, &funds);
                let dpost = self.w.digest();
                return (r, dpre, dpost);
            }
        }
        // `funds_mode`: what a NATIVE offer attaches - 0 exactly the offer; 1 nothing; 2 one unit less; 3 one unit more;
        // 4 the offer in the pair's other native asset.  Anything but 0 pays in something else than it declares: to be refused
        let mode = std::mem::take(&mut self.funds_mode);
        let r = match self.assets[dir].clone() {
            A::Native(dn) => {
                let funds: Vec<Coin> = match mode {
                    1 => vec![],
                    2 if offer > 1 => vec![coin(offer - 1, dn)],
                    3 => vec![coin(offer + 1, dn)],
                    4 => match self.assets[1 - dir].clone() { A::Native(d2) => vec![coin(offer, d2)], _ => vec![] },
                    _ => vec![coin(offer, dn)],
                };
                self.w.exec(
                &u,
                &self.pair.clone(),
                &ExecuteMsg::Swap {
                    offer_asset: self.assets[dir].asset(offer),
                    belief_price: belief.map(dec_atomics),
                    max_spread: max_spread.map(dec_atomics),
                    to: to_s,
                },
                &funds,
            ) }
            A::Cw20(t) => self.w.cw20_send(
                &u,
                &t,
                &self.pair.clone(),
                offer,
                &Cw20HookMsg::Swap {
                    belief_price: belief.map(dec_atomics),
                    max_spread: max_spread.map(dec_atomics),
                    to: to_s,
                },
            ),
        };
        let dpost = self.w.digest();
        (r, dpre, dpost)
    }
}

const FUNDS_MODES: [&str; 5] = ["exact", "none", "less", "more", "other"];

fn lead_digits(x: &str) -> String {
    let d: String = x.trim().chars().take_while(|c| c.is_ascii_digit()).collect();
    if d.is_empty() { "0".into() } else { d }
}

fn opt_s(x: Option<u128>) -> Value {
    match x {
        Some(v) => s(v),
        None => json!("none"),
    }
}

pub struct PoolCfg {
    pub kinds: [bool; 2],
    pub decimals: [u8; 2],
    pub fees: [u128; 3],
    pub scale: [u128; 2],
}

pub fn random_cfg(r: &mut StdRng, run: u64) -> PoolCfg {
    let kinds = match run % 4 {
        0 => [true, true],
        1 => [true, false],
        2 => [false, true],
        _ => [false, false],
    };
    let decimals = *gen::pick(r, &[[6u8, 6u8], [6, 18], [18, 6], [8, 6]]);
    let fees = random_fees(r);
    let scales: [u128; 7] = [3_000, 1_000_000, 1_000_000_000_000, 1u128 << 64, 1_000_000_000_000_000_000_000_000, 1u128 << 100, 1u128 << 112];
    let scale = [*gen::pick(r, &scales), *gen::pick(r, &scales)];
    PoolCfg { kinds, decimals, fees, scale }
}

pub fn random_fees(r: &mut StdRng) -> [u128; 3] {
    const ONE: u128 = 1_000_000_000_000_000_000;
    match r.gen_range(0..8) {
        0 => [0, 0, 0],
        1 => [1_000_000_000_000_000, 2_000_000_000_000_000, 0],
        2 => [ONE / 10, ONE / 5, ONE / 20],
        // one fee of the three switched off, the others on (each ledger has its own code path)
        3 => [0, ONE / 300, ONE / 500],
        4 => [ONE / 700, 0, ONE / 300],
        _ => {
            let p = gen::share_atomics(r, ONE / 3);
            let sw = gen::share_atomics(r, ONE / 3);
            let b = gen::share_atomics(r, ONE / 3 - 1);
            [p, sw, b]
        }
    }
}

/// a two-asset stableswap pool (C03): the statement's decimal pairs, any amplification, at least eight whole tokens
/// of each asset to start with (the first deposit draws from [scale/8, scale])
pub fn stable_cfg(r: &mut StdRng, run: u64) -> (PoolCfg, u64) {
    let base = random_cfg(r, run);
    let decimals = *gen::pick(r, &[[6u8, 6u8], [6, 6], [6, 8], [8, 6], [6, 18], [18, 6], [4, 5]]);
    let amp: u64 = match r.gen_range(0..5) { 0 => 1, 1 => 1_000_000, 2 => 100, _ => gen::log_uniform(r, 1, 1_000_000) as u64 };
    let pow10 = |d: u8| 10u128.pow(d as u32);
    let cap = |d: u8| ((1u128 << 100) / pow10(d)).max(16);
    let tok0 = gen::log_uniform(r, 8, cap(decimals[0]).min(1u128 << 40));
    let tok1 = match r.gen_range(0..4) { 0 => tok0, 1 => (tok0 / 2).max(8), 2 => tok0.saturating_mul(3), _ => gen::log_uniform(r, 8, 1u128 << 40) }.min(cap(decimals[1]));
    (PoolCfg { kinds: base.kinds, decimals, fees: base.fees, scale: [tok0 * pow10(decimals[0]), tok1 * pow10(decimals[1])] }, amp)
}

/// one run = one fresh world and `nops` operations
pub fn run_random(rec: &mut Rec, seed: u64, run: u64, nops: usize, stable: bool) {
    let mut r = gen::rng(seed, run ^ if stable { 0x5354_4142 } else { 0 });
    let (cfg, amp) = if stable { stable_cfg(&mut r, run) } else { (random_cfg(&mut r, run), 0) };
    let fund: u128 = 1u128 << 122;
    let ptype = if stable { PairType::StableSwap { amp } } else { PairType::ConstantProduct };
    // every fourth pool with a cw20 asset is instantiated directly, with that asset's address spelled in upper case;
    // a quarter of the pools trade denoms with upper-case letters, another quarter token-factory denoms
    let mut p = if (run / 4) % 4 == 3 && cfg.kinds != [true, true] { PoolRun::new_direct(cfg.kinds, cfg.decimals, cfg.fees, ptype, fund) }
                else { PoolRun::new_spelled(cfg.kinds, cfg.decimals, cfg.fees, ptype, fund, match (run / 4) % 4 { 1 => 1, 2 => 2, _ => 0 }) };
    rec.emit(json!({
        "ev": "reset", "suite": "pool", "run": run, "seed": seed.to_string(), "ops": nops,
        "extra": {"kind": if stable { "stable" } else { "cp" }},
        "cfg": {"ptype": if stable { "stable" } else { "cp" }, "amp": amp.to_string(), "kinds": [p.assets[0].kind(), p.assets[1].kind()],
                "dec": [cfg.decimals[0], cfg.decimals[1]]},
        "obs": p.obs(),
    }));
    let mut last_minted: Option<(usize, u128)> = None;
    for step in 0..nops {
        let res = p.reserves();
        let total: u128 = p.w.cw20_supply(&p.lp);
        let op = if total == 0 { 0 } else { r.gen_range(0..100) };
        let ui = r.gen_range(0..3usize);
        let base = json!({"run": run, "step": step});
        let mut ev = base.as_object().unwrap().clone();
        if r.gen_bool(0.3) {
            p.w.advance(6_000_000_000, 1);
        }
        match op {
            // ---------------------------------------------------------------- provide
            0..=21 => {
                let d: [u128; 2] = if total == 0 {
                    [gen::log_uniform(&mut r, cfg.scale[0] / 8 + 1, cfg.scale[0]),
                     gen::log_uniform(&mut r, cfg.scale[1] / 8 + 1, cfg.scale[1])]
                } else if stable && r.gen_range(0..6) == 0 {
                    // far larger than the pool and (nearly) one-sided
                    let side = r.gen_range(0..2usize);
                    let mut d = [r.gen_range(1..3u128), r.gen_range(1..3u128)];
                    d[side] = gen::log_uniform(&mut r, res[side].max(1), (1u128 << 100).max(res[side]));
                    d
                } else {
                    match r.gen_range(0..4) {
                        0 => [gen::amount(&mut r, res[0].max(1)), gen::amount(&mut r, res[1].max(1))],
                        _ => {
                            // proportional, with a perturbation
                            let d0 = gen::log_uniform(&mut r, 1, res[0].max(1).saturating_mul(2).min(1 << 118));
                            let ideal = (cosmwasm_std::Uint256::from(d0) * cosmwasm_std::Uint256::from(res[1]))
                                / cosmwasm_std::Uint256::from(res[0].max(1));
                            let ideal: u128 = Uint128::try_from(ideal).map(|x| x.u128()).unwrap_or(1 << 118).min(1 << 118);
                            let d1 = match r.gen_range(0..5) {
                                0 => ideal.saturating_sub(1),
                                1 => ideal + 1,
                                2 => ideal + ideal / 100,
                                _ => ideal,
                            }
                            .max(1);
                            [d0, d1]
                        }
                    }
                };
                let recv = if r.gen_bool(0.2) { r.gen_range(0..3usize) } else { ui };
                let slip = match r.gen_range(0..8) {
                    0 => Some(0u128),
                    1 => Some(10_000_000_000_000_000),
                    2 => Some(500_000_000_000_000_000),
                    3 => Some(1_000_000_000_000_000_000),
                    4 => Some(1_000_000_000_000_000_001),
                    _ => None,
                };
                let rev = r.gen_bool(0.3);
                let (rs, dpre, dpost) = p.provide(ui, d, recv, slip, rev);
                let minted = rs.attr("provide_liquidity", "share").unwrap_or("0".into());
                last_minted = if rs.is_ok() && recv == ui { Some((ui, minted.parse().unwrap_or(0))) } else { None };
                ev.insert("ev".into(), json!("provide"));
                ev.insert("actor".into(), json!(USERS[ui]));
                ev.insert("args".into(), json!({"d": sv(&d), "recv": USERS[recv], "slip": opt_s(slip), "rev": rev}));
                ev.insert("res".into(), json!(rs.tag()));
                ev.insert("err".into(), jerr(&rs.err()));
                ev.insert("out".into(), json!({"minted": minted}));
                ev.insert("dpre".into(), json!(dpre));
                ev.insert("dpost".into(), json!(dpost));
            }
            // ---------------------------------------------------------------- withdraw
            22..=37 => {
                let lpa = A::Cw20(p.lp.clone());
                let have = p.w.balance(&p.user(ui), &lpa);
                let amt = match (last_minted, r.gen_range(0..6)) {
                    (Some((lu, m)), 0..=2) if lu == ui && m > 0 => m,
                    (_, 3) => have,
                    (_, 4) => have / 2,
                    (_, 5) => have + 1,
                    _ => gen::amount(&mut r, have.max(1)),
                }
                .max(1);
                last_minted = None;
                let (rs, dpre, dpost) = p.withdraw(ui, amt);
                let refund = rs.attr("withdraw_liquidity", "refund_assets").unwrap_or("0, 0".into());
                let parts: Vec<String> = refund.split(", ").map(lead_digits).collect();
                ev.insert("ev".into(), json!("withdraw"));
                ev.insert("actor".into(), json!(USERS[ui]));
                ev.insert("args".into(), json!({"amt": s(amt)}));
                ev.insert("res".into(), json!(rs.tag()));
                ev.insert("err".into(), jerr(&rs.err()));
                ev.insert("out".into(), json!({"refund": [parts.get(0).cloned().unwrap_or("0".into()),
                                                          parts.get(1).cloned().unwrap_or("0".into())]}));
                ev.insert("dpre".into(), json!(dpre));
                ev.insert("dpost".into(), json!(dpost));
            }
            // ---------------------------------------------------------------- swap
            38..=77 => {
                last_minted = None;
                let dir = r.gen_range(0..2usize);
                let rp = res[dir].max(1);
                let offer = match r.gen_range(0..10) {
                    0 => gen::amount(&mut r, rp.saturating_mul(2).min(1 << 120)),
                    1 => rp,
                    2 => 1,
                    3 => rp / 2 + 1,
                    4..=6 => gen::log_uniform(&mut r, 1, (rp / 50).max(1)),
                    _ => gen::log_uniform(&mut r, 1, rp.min(1 << 120)),
                };
                // one swap in ten aims at the collection threshold: the offer whose protocol fee brings the pending fee of the
                // ask asset to exactly 999, 1000 or 1001 base units (a collection follows soon enough: 8 % of the operations)
                let offer = if r.gen_range(0..10) == 0 {
                    let pending: u128 = p.obs()["fee"][1 - dir].as_str().and_then(|x| x.parse().ok()).unwrap_or(0);
                    let target = 999 + r.gen_range(0..3u128);
                    if target > pending {
                        let need = target - pending;
                        let pf_of = |p: &PoolRun, o: u128| -> u128 { p.simulate(dir, o)["pf"].as_str().and_then(|x| x.parse().ok()).unwrap_or(0) };
                        let (mut lo, mut hi) = (1u128, rp.min(1 << 100));
                        while lo < hi { let mid = lo + (hi - lo) / 2; if pf_of(&p, mid) >= need { hi = mid } else { lo = mid + 1 } }
                        if pf_of(&p, lo) == need { lo } else { offer }
                    } else { offer }
                } else { offer };
                let sim = p.simulate(dir, offer);
                // spreads: realised spread +- a little, defaults, caps
                let realised: Option<u128> = {
                    let g = ["ret", "sf", "pf", "bf"].iter().map(|k| sim[*k].as_str().unwrap().parse::<u128>().unwrap()).sum::<u128>();
                    let sp = sim["spread"].as_str().unwrap().parse::<u128>().unwrap();
                    if g.checked_add(sp).unwrap_or(0) > 0 && sp < (1 << 68) {
                        Some(((cosmwasm_std::Uint256::from(sp) * cosmwasm_std::Uint256::from(1_000_000_000_000_000_000u128))
                            / cosmwasm_std::Uint256::from(g + sp)).to_string().parse::<u128>().unwrap())
                    } else { None }
                };
                let ms = match (r.gen_range(0..12), realised) {
                    (0, _) => None,
                    (1, Some(x)) => Some(x),
                    (2, Some(x)) => Some(x + 1),
                    (3, Some(x)) => Some(x.saturating_sub(1)),
                    (4, _) => Some(0),
                    (5, _) => Some(500_000_000_000_000_001),
                    (6, _) => Some(1_000_000_000_000_000_000),
                    (7, _) => Some(10_000_000_000_000_000),
                    _ => Some(500_000_000_000_000_000),
                };
                let belief = if r.gen_bool(0.25) {
                    // price around reserve ratio: offer per ask
                    let num = cosmwasm_std::Uint256::from(res[dir].max(1)) * cosmwasm_std::Uint256::from(1_000_000_000_000_000_000u128);
                    let p0 = num / cosmwasm_std::Uint256::from(res[1 - dir].max(1));
                    let p0: u128 = Uint128::try_from(p0).map(|x| x.u128()).unwrap_or(u128::MAX / 4);
                    Some(match r.gen_range(0..5) {
                        0 => p0,
                        1 => p0 / 2,
                        2 => p0.saturating_mul(2),
                        3 => p0.saturating_add(p0 / 100),
                        _ => p0.saturating_sub(p0 / 100),
                    }.max(1))
                } else { None };
                let to = match r.gen_range(0..10) { 0 | 1 => r.gen_range(0..3usize), 2 => 3, _ => ui };
                // one swap in ten with a cw20 offer names it in the direct message instead of sending the tokens
                let wrong = matches!(p.assets[dir], A::Cw20(_)) && r.gen_range(0..10) == 0;
                p.wrong_path = wrong;
                // one native offer in eight attaches something else than it declares (nothing, one unit less or more, the other asset)
                let fm: u8 = if matches!(p.assets[dir], A::Native(_)) && r.gen_range(0..8) == 0 { r.gen_range(1..5u8) } else { 0 };
                let fm = if fm == 2 && offer <= 1 { 1 } else { fm };
                let fm = if fm == 4 && !matches!(p.assets[1 - dir], A::Native(_)) { 1 } else { fm };
                p.funds_mode = fm;
                let (rs, dpre, dpost) = p.swap(ui, dir, offer, to, ms, belief);
                let g = |k: &str| rs.attr("swap", k).unwrap_or("0".into());
                ev.insert("ev".into(), json!("swap"));
                ev.insert("actor".into(), json!(USERS[ui]));
                ev.insert("args".into(), json!({"dir": dir + 1, "offer": s(offer), "to": if to == 3 { "collector" } else { USERS[to] },
                    "ms": opt_s(ms), "bp": opt_s(belief), "wrong_path": wrong, "funds": FUNDS_MODES[fm as usize]}));
                // the reverse quote for what the forward quote promises
                let ask: u128 = sim["ret"].as_str().and_then(|x| x.parse().ok()).unwrap_or(0);
                let rsim = if ask > 0 { p.reverse_simulate(dir, ask) } else { json!({"res": "none", "ask": "0", "offer": "0", "fwd": "0", "fwd_res": "none"}) };
                ev.insert("pre".into(), json!({"sim": sim, "rsim": rsim}));
                ev.insert("res".into(), json!(rs.tag()));
                ev.insert("err".into(), jerr(&rs.err()));
                ev.insert("out".into(), json!({"ret": g("return_amount"), "spread": g("spread_amount"),
                    "sf": g("swap_fee_amount"), "pf": g("protocol_fee_amount"), "bf": g("burn_fee_amount")}));
                ev.insert("dpre".into(), json!(dpre));
                ev.insert("dpost".into(), json!(dpost));
            }
            // ---------------------------------------------------------------- collect
            78..=85 => {
                last_minted = None;
                let before: Vec<u128> = p.assets.iter().map(|a| p.w.balance(&p.collector, a)).collect();
                let dpre = p.w.digest();
                let u = p.user(ui);
                let rs = p.w.exec(&u, &p.pair.clone(), &ExecuteMsg::CollectProtocolFees {}, &[]);
                let dpost = p.w.digest();
                let after: Vec<u128> = p.assets.iter().map(|a| p.w.balance(&p.collector, a)).collect();
                ev.insert("ev".into(), json!("collect"));
                ev.insert("actor".into(), json!(USERS[ui]));
                ev.insert("args".into(), json!({}));
                ev.insert("res".into(), json!(rs.tag()));
                ev.insert("err".into(), jerr(&rs.err()));
                ev.insert("out".into(), json!({"sent": sv(&[after[0].saturating_sub(before[0]), after[1].saturating_sub(before[1])])}));
                ev.insert("dpre".into(), json!(dpre));
                ev.insert("dpost".into(), json!(dpost));
            }
            // ---------------------------------------------------------------- the three pause switches (always sent as a triple)
            86..=91 if r.gen_bool(0.35) => {
                let cur: white_whale_std::pool_network::pair::ConfigResponse = p.w.query(&p.pair, &QueryMsg::Config {}).unwrap();
                let flip = |r: &mut StdRng, now: bool| -> bool { match r.gen_range(0..10) { 0..=4 => now, 5..=7 => true, _ => false } };
                let (d, wd, sw) = (flip(&mut r, cur.feature_toggle.deposits_enabled), flip(&mut r, cur.feature_toggle.withdrawals_enabled), flip(&mut r, cur.feature_toggle.swaps_enabled));
                let by_owner = r.gen_bool(0.85);
                let sender = if by_owner { p.w.owner.clone() } else { p.user(ui) };
                let dpre = p.w.digest();
                let rs = p.owner_update(&sender, None, Some(white_whale_std::pool_network::pair::FeatureToggle { withdrawals_enabled: wd, deposits_enabled: d, swaps_enabled: sw }));
                let dpost = p.w.digest();
                ev.insert("ev".into(), json!("settog"));
                ev.insert("actor".into(), json!(if by_owner { "owner" } else { USERS[ui] }));
                ev.insert("args".into(), json!({"d": d, "w": wd, "s": sw}));
                ev.insert("res".into(), json!(rs.tag()));
                ev.insert("err".into(), jerr(&rs.err()));
                ev.insert("out".into(), json!({}));
                ev.insert("dpre".into(), json!(dpre));
                ev.insert("dpost".into(), json!(dpost));
            }
            // ---------------------------------------------------------------- set fees (owner -> factory -> pair)
            86..=91 => {
                const ONE: u128 = 1_000_000_000_000_000_000;
                let f = match r.gen_range(0..6) {
                    0 => [ONE, 0, 0],
                    1 => [ONE / 2, ONE / 2, 0],
                    2 => [ONE / 2, ONE / 2 - 1, 0],
                    3 => [ONE / 3, ONE / 3, ONE / 3 + 1],
                    _ => random_fees(&mut r),
                };
                let by_owner = r.gen_bool(0.85);
                let sender = if by_owner { p.w.owner.clone() } else { p.user(ui) };
                let dpre = p.w.digest();
                let rs = p.owner_update(&sender, Some(pool_fee(dec_atomics(f[0]), dec_atomics(f[1]), dec_atomics(f[2]))), None);
                let dpost = p.w.digest();
                ev.insert("ev".into(), json!("setfees"));
                ev.insert("actor".into(), json!(if by_owner { "owner" } else { USERS[ui] }));
                ev.insert("args".into(), json!({"p": s(f[0]), "s": s(f[1]), "b": s(f[2])}));
                ev.insert("res".into(), json!(rs.tag()));
                ev.insert("err".into(), jerr(&rs.err()));
                ev.insert("out".into(), json!({}));
                ev.insert("dpre".into(), json!(dpre));
                ev.insert("dpost".into(), json!(dpost));
            }
            // ---------------------------------------------------------------- the direct withdrawal message
            // (the entry point of token-factory LP denoms; with a cw20 LP token it has nothing to burn and must refuse
            // whatever coin is attached: pool assets, amounts below and above the locked minimum liquidity)
            92..=93 => {
                last_minted = None;
                let natives: Vec<String> = p.assets.iter().filter_map(|a| match a { A::Native(d) => Some(d.clone()), _ => None }).collect();
                let amt = match r.gen_range(0..5) { 0 => 1, 1 => 999, 2 => 1000, 3 => 1001, _ => gen::amount(&mut r, total.max(2)) };
                let u = p.user(ui);
                let funds: Vec<Coin> = if natives.is_empty() { vec![] } else { vec![coin(amt, natives[r.gen_range(0..natives.len())].clone())] };
                let dpre = p.w.digest();
                // ... or a forged cw20 receipt: the caller sends the Receive message itself, naming itself as the sender of
                // LP tokens (or of pool tokens to swap) that never moved
                // ... or a genuine cw20 receipt of the wrong token: one of the pool's own cw20 ASSETS sent to the pair with the
                // withdrawal hook (only the LP token's receipts may withdraw)
                let cw20_assets: Vec<Addr> = p.assets.iter().filter_map(|a| match a { A::Cw20(t) => Some(t.clone()), _ => None }).collect();
                let forged = if cw20_assets.is_empty() { r.gen_range(0..3) } else { r.gen_range(0..5) };
                let rs = match forged {
                    3 | 4 => { let t = cw20_assets[r.gen_range(0..cw20_assets.len())].clone();
                               p.w.cw20_send(&u, &t, &p.pair.clone(), amt, &Cw20HookMsg::WithdrawLiquidity {}) }
                    0 => p.w.exec(&u, &p.pair.clone(), &ExecuteMsg::WithdrawLiquidity {}, &funds),
                    1 => p.w.exec(&u, &p.pair.clone(), &forged_receive(&u, amt, &Cw20HookMsg::WithdrawLiquidity {}), &[]),
                    _ => p.w.exec(&u, &p.pair.clone(), &forged_receive(&u, amt, &Cw20HookMsg::Swap { belief_price: None, max_spread: Some(dec_atomics(500_000_000_000_000_000)), to: None }), &[]),
                };
                let dpost = p.w.digest();
                let refund = rs.attr("withdraw_liquidity", "refund_assets").unwrap_or("0, 0".into());
                let parts: Vec<String> = refund.split(", ").map(lead_digits).collect();
                ev.insert("ev".into(), json!("wdirect"));
                ev.insert("actor".into(), json!(USERS[ui]));
                ev.insert("args".into(), json!({"amt": s(amt), "forged": forged}));
                ev.insert("res".into(), json!(rs.tag()));
                ev.insert("err".into(), jerr(&rs.err()));
                ev.insert("out".into(), json!({"refund": [parts.get(0).cloned().unwrap_or("0".into()), parts.get(1).cloned().unwrap_or("0".into())]}));
                ev.insert("dpre".into(), json!(dpre));
                ev.insert("dpost".into(), json!(dpost));
            }
            // ---------------------------------------------------------------- donate
            94..=96 => {
                let a = r.gen_range(0..2usize);
                let x = gen::amount(&mut r, (res[a] / 10).max(5));
                let u = p.user(ui);
                let dpre = p.w.digest();
                let rs = match p.assets[a].clone() {
                    A::Native(dn) => {
                        let app = &mut p.w.app;
                        match cw_multi_test::Executor::send_tokens(app, u.clone(), p.pair.clone(), &[coin(x, dn)]) {
                            Ok(r) => Res::Ok(r),
                            Err(e) => Res::Rejected(e.to_string()),
                        }
                    }
                    A::Cw20(t) => p.w.exec(&u, &t, &cw20::Cw20ExecuteMsg::Transfer { recipient: p.pair.to_string(), amount: Uint128::new(x) }, &[]),
                };
                let dpost = p.w.digest();
                ev.insert("ev".into(), json!("donate"));
                ev.insert("actor".into(), json!(USERS[ui]));
                ev.insert("args".into(), json!({"a": a + 1, "x": s(x)}));
                ev.insert("res".into(), json!(rs.tag()));
                ev.insert("err".into(), jerr(&rs.err()));
                ev.insert("out".into(), json!({}));
                ev.insert("dpre".into(), json!(dpre));
                ev.insert("dpost".into(), json!(dpost));
            }
            // ---------------------------------------------------------------- LP transfer
            _ => {
                last_minted = None;
                let lpa = A::Cw20(p.lp.clone());
                let have = p.w.balance(&p.user(ui), &lpa);
                let vi = (ui + 1 + r.gen_range(0..2usize)) % 3;
                let x = gen::amount(&mut r, have.max(1));
                let u = p.user(ui);
                let dpre = p.w.digest();
                let rs = p.w.exec(&u, &p.lp.clone(), &cw20::Cw20ExecuteMsg::Transfer { recipient: p.users[vi].to_string(), amount: Uint128::new(x) }, &[]);
                let dpost = p.w.digest();
                ev.insert("ev".into(), json!("lptransfer"));
                ev.insert("actor".into(), json!(USERS[ui]));
                ev.insert("args".into(), json!({"to": USERS[vi], "x": s(x)}));
                ev.insert("res".into(), json!(rs.tag()));
                ev.insert("err".into(), jerr(&rs.err()));
                ev.insert("out".into(), json!({}));
                ev.insert("dpre".into(), json!(dpre));
                ev.insert("dpost".into(), json!(dpost));
            }
        }
        // was the call refused as "Operation disabled" (a pause switch) ?
        let dis = ev.get("err").and_then(|e| e.as_str()).map(|e| e.contains("Operation disabled")).unwrap_or(false);
        ev.insert("disabled".into(), json!(dis));
        ev.insert("obs".into(), p.obs());
        rec.emit(Value::Object(ev));
    }
}

pub fn main(seed: u64, first: u64, runs: u64, nops: usize, out: &str, kind: &str) {
    let mut rec = Rec::create(out);
    for run in first..first + runs {
        run_random(&mut rec, seed, run, nops, kind == "stable");
    }
    let n = rec.finish();
    eprintln!("pool: {runs} runs, {n} lines -> {out}");
}
