//! Helper suite (frontend-helper clause of C11): deposits through the real frontend helper into real pairs
//! (native/native and native/cw20), which stakes the minted LP in the pair's real incentive contract on behalf of
//! the depositor, interleaved with direct position closes, withdrawals, time, and stray LP / coins left on the helper.
use cosmwasm_std::{coin, Addr, Coin};
use rand::Rng;
use serde_json::{json, Value};

use white_whale_std::pool_network::asset::AssetInfo;
use white_whale_std::pool_network::frontend_helper::ExecuteMsg as HelperExec;
use white_whale_std::pool_network::incentive::{ExecuteMsg as IncExec, PositionsResponse, QueryMsg as IncQuery, QueryPosition};

use crate::full::*;
use crate::gen;
use crate::rec::Rec;
use crate::world::*;

const DURS: [u64; 5] = [86_400, 86_401, 15_778_463, 31_536_000, 86_399];

struct Target { pair: Addr, lp: Addr, incentive: Option<Addr>, assets: [A; 2], name: &'static str }

fn open_amount(f: &Full, inc: &Addr, who: &Addr, dur: u64) -> u128 {
    let p: PositionsResponse = f.w.query(inc, &IncQuery::Positions { address: who.to_string() }).unwrap();
    p.positions.iter().map(|q| match q { QueryPosition::OpenPosition { amount, unbonding_duration, .. } if *unbonding_duration == dur => amount.u128(), _ => 0 }).sum()
}

pub fn run_random(rec: &mut Rec, seed: u64, run: u64, nops: usize) {
    let mut r = gen::rng(seed, run ^ 0x4845_4c50);
    let mut f = Full::new(true);
    let lp2 = AssetInfo::Token { contract_addr: f.pair2_lp.to_string() };
    let inc2 = f.w.create_incentive(&f.incentive_factory.clone(), &lp2, "incentive2").unwrap();
    let targets = [
        Target { pair: f.pair1.clone(), lp: f.pair1_lp.clone(), incentive: Some(f.incentive.clone()), assets: [f.whale.clone(), f.usdc.clone()], name: "pair1" },
        Target { pair: f.pair2.clone(), lp: f.pair2_lp.clone(), incentive: Some(inc2.clone()), assets: [f.usdc.clone(), f.tka.clone()], name: "pair2" },
    ];
    let users = [f.user.clone(), f.newowner.clone()];
    let unames = ["user1", "newowner"];
    let helper = f.helper.clone();
    let lpu = f.lp_user.clone();
    rec.emit(json!({"ev": "reset", "suite": "helper", "run": run, "seed": seed.to_string(), "ops": nops}));
    for step in 0..nops {
        let mut ev = serde_json::Map::new();
        ev.insert("run".into(), json!(run));
        ev.insert("step".into(), json!(step));
        let ti = r.gen_range(0..2usize);
        let t = &targets[ti];
        let ui = r.gen_range(0..2usize);
        let u = users[ui].clone();
        let inc = t.incentive.clone().unwrap();
        let lpa = A::Cw20(t.lp.clone());
        let c = r.gen_range(0..100);
        if c < 60 {
            // deposit through the helper; proportional to the pool (constant product keeps everything it is sent)
            let res: Vec<u128> = t.assets.iter().map(|a| f.w.balance(&t.pair, a)).collect();
            let d0 = gen::log_uniform(&mut r, 1000, 50_000_000);
            let d1 = ((d0 as u128) * res[1] / res[0].max(1)).max(1);
            let d = [d0, match r.gen_range(0..6) { 0 => d1 + d1 / 50, 1 => d1.saturating_sub(d1 / 50).max(1), _ => d1 }];
            let dur = *gen::pick(&mut r, &DURS);
            // what is sent along: exactly the stated amounts, or (rarely) a mismatch
            let mismatch = r.gen_range(0..12) == 0;
            let mut funds: Vec<Coin> = vec![];
            for i in 0..2 {
                let amt = if mismatch && i == 0 { d[i] + 1 } else { d[i] };
                match &t.assets[i] {
                    A::Native(dn) => funds.push(coin(amt, dn.as_str())),
                    A::Cw20(tok) => f.w.set_allowance(&u, tok, &helper, amt),
                }
            }
            funds.sort_by(|a, b| a.denom.cmp(&b.denom));
            let snap = |f: &Full| -> Value {
                json!({"helper": {"lp": s(f.w.balance(&helper, &lpa)), "a": sv(&[f.w.balance(&helper, &t.assets[0]), f.w.balance(&helper, &t.assets[1])])},
                       "user": {"lp": s(f.w.balance(&u, &lpa)), "a": sv(&[f.w.balance(&u, &t.assets[0]), f.w.balance(&u, &t.assets[1])])},
                       "inc_lp": s(f.w.balance(&inc, &lpa)), "S": s(f.w.cw20_supply(&t.lp)), "pos": s(open_amount(f, &inc, &u, dur)),
                       "pair": sv(&[f.w.balance(&t.pair, &t.assets[0]), f.w.balance(&t.pair, &t.assets[1])])})
            };
            let pre = snap(&f);
            let dpre = f.w.digest();
            let rs = f.w.exec(&u, &helper, &HelperExec::Deposit { pair_address: t.pair.to_string(), assets: [t.assets[0].asset(d[0]), t.assets[1].asset(d[1])],
                slippage_tolerance: Some(dec("0.5")), unbonding_duration: dur }, &funds);
            let dpost = f.w.digest();
            ev.insert("ev".into(), json!("hdeposit"));
            ev.insert("actor".into(), json!(unames[ui]));
            ev.insert("args".into(), json!({"pair": t.name, "d": sv(&d), "dur": dur.to_string(), "mismatch": mismatch}));
            ev.insert("pre".into(), pre);
            ev.insert("obs".into(), snap(&f));
            ev.insert("res".into(), json!(rs.tag()));
            ev.insert("err".into(), jerr(&rs.err()));
            ev.insert("dpre".into(), json!(dpre));
            ev.insert("dpost".into(), json!(dpost));
        } else if c < 70 {
            // stray LP or coins left on the helper by somebody
            let which = r.gen_range(0..3usize);
            let amt = gen::log_uniform(&mut r, 1, 100_000);
            if which == 0 { let _ = f.w.exec(&lpu, &t.lp, &cw20::Cw20ExecuteMsg::Transfer { recipient: helper.to_string(), amount: amt.into() }, &[]); }
            else { f.w.fund(&helper, &t.assets[which - 1], amt); }
            ev.insert("ev".into(), json!("stray"));
            ev.insert("actor".into(), json!("lpuser"));
            let what = ["lp", "a1", "a2"][which];
            ev.insert("args".into(), json!({"pair": t.name, "what": what, "amt": s(amt)}));
            ev.insert("res".into(), json!("ok"));
            ev.insert("err".into(), json!(""));
        } else if c < 85 {
            let dur = *gen::pick(&mut r, &DURS);
            let rs = f.w.exec(&u, &inc, &IncExec::ClosePosition { unbonding_duration: dur }, &[]);
            ev.insert("ev".into(), json!("close"));
            ev.insert("actor".into(), json!(unames[ui]));
            ev.insert("args".into(), json!({"pair": t.name, "dur": dur.to_string()}));
            ev.insert("res".into(), json!(rs.tag()));
            ev.insert("err".into(), jerr(&rs.err()));
        } else if c < 93 {
            let rs = f.w.exec(&u, &inc, &IncExec::Withdraw {}, &[]);
            ev.insert("ev".into(), json!("withdraw"));
            ev.insert("actor".into(), json!(unames[ui]));
            ev.insert("args".into(), json!({"pair": t.name}));
            ev.insert("res".into(), json!(rs.tag()));
            ev.insert("err".into(), jerr(&rs.err()));
        } else {
            let secs = *gen::pick(&mut r, &[1u64, 86_400, 86_401, 15_778_463]);
            f.w.advance(secs * 1_000_000_000, (secs / 6).max(1));
            ev.insert("ev".into(), json!("tick"));
            ev.insert("actor".into(), json!("owner"));
            ev.insert("args".into(), json!({"secs": secs.to_string()}));
            ev.insert("res".into(), json!("ok"));
            ev.insert("err".into(), json!(""));
        }
        rec.emit(Value::Object(ev));
    }
}

pub fn main(seed: u64, first: u64, runs: u64, nops: usize, out: &str) {
    let mut rec = Rec::create(out);
    for run in first..first + runs { run_random(&mut rec, seed, run, nops); }
    let n = rec.finish();
    eprintln!("helper: {n} lines -> {out}");
}
