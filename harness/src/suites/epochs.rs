//! Epoch clocks (C20): the epoch manager with recording hook receivers and the fee distributor's NewEpoch
//! (inside the fully wired hub), driven by TLC-generated schedules of time classes and by a random driver.
use std::io::BufRead;

use cosmwasm_std::{Addr, Empty, Timestamp, Uint64};
use rand::Rng;
use serde_json::{json, Value};

use white_whale_std::epoch_manager::epoch_manager::{
    EpochConfig, EpochResponse, EpochV2, ExecuteMsg, InstantiateMsg, QueryMsg,
};

use crate::gen;
use crate::hookrecv;
use crate::hub::DAY;
use crate::rec::Rec;
use crate::world::*;

pub const HOOKS: [&str; 2] = ["h1", "h2"];

pub struct EpochRun {
    pub w: World,
    pub kind: String,
    pub clock: Addr,
    pub hooks: Vec<Addr>,
    pub dur: u64,
    pub genesis: u64,
    /// id of the epoch the manager is instantiated with (0 for the distributor)
    pub first: u64,
    pub user: Addr,
}

impl EpochRun {
    pub fn new(kind: &str, dur: u64, genesis_offset: u64, first: u64) -> EpochRun {
        let first = if kind == "manager" { first } else { 0 };
        let mut w = World::new();
        let now = w.now_nanos();
        let genesis = now + genesis_offset;
        let user = w.add_account("user1");
        w.add_denom("uwhale");
        let mut hooks = vec![];
        let clock = if kind == "manager" {
            let a = cw_multi_test::Executor::instantiate_contract(
                &mut w.app,
                w.codes.epoch_manager,
                w.owner.clone(),
                &InstantiateMsg {
                    start_epoch: EpochV2 { id: first, start_time: Timestamp::from_nanos(genesis) },
                    epoch_config: EpochConfig { duration: Uint64::new(dur), genesis_epoch: Uint64::new(genesis) },
                },
                &[],
                "epoch_manager",
                None,
            )
            .unwrap();
            w.register("epoch_manager", &a);
            let code = w.app.store_code(hookrecv::contract());
            for h in HOOKS {
                let ha = cw_multi_test::Executor::instantiate_contract(&mut w.app, code, w.owner.clone(), &Empty {}, &[], h, None).unwrap();
                w.register(h, &ha);
                hooks.push(ha);
            }
            a
        } else {
            let hub = w.new_hub(3, dur, genesis, "uwhale", &["uwhale"], 1_000_000_000_000);
            hub.distributor
        };
        EpochRun { w, kind: kind.to_string(), clock, hooks, dur, genesis, first, user }
    }

    pub fn current(&self) -> (u64, u64) {
        if self.kind == "manager" {
            let r: EpochResponse = self.w.query(&self.clock, &QueryMsg::CurrentEpoch {}).unwrap();
            (r.epoch.id, r.epoch.start_time.nanos())
        } else {
            let r: white_whale_std::fee_distributor::EpochResponse =
                self.w.query(&self.clock, &white_whale_std::fee_distributor::QueryMsg::CurrentEpoch {}).unwrap();
            (r.epoch.id.u64(), r.epoch.start_time.nanos())
        }
    }

    pub fn obs(&self) -> Value {
        let (id, start) = self.current();
        let mut logs = serde_json::Map::new();
        let mut registered: Vec<String> = vec![];
        if self.kind == "manager" {
            for (i, h) in self.hooks.iter().enumerate() {
                let l: Vec<EpochV2> = self.w.query(h, &hookrecv::HookQuery::Log {}).unwrap();
                logs.insert(
                    HOOKS[i].into(),
                    Value::Array(l.iter().map(|e| json!({"id": e.id.to_string(), "start": e.start_time.nanos().to_string()})).collect()),
                );
            }
            // registered hooks: raw storage of cw_controllers::Hooks ("hooks")
            if let Ok(Some(v)) = self.w.app.wrap().query_wasm_raw(&self.clock, b"hooks".to_vec()) {
                let hs: Vec<String> = serde_json::from_slice(&v).unwrap_or_default();
                for (i, h) in self.hooks.iter().enumerate() {
                    if hs.iter().any(|x| x == h.as_str()) {
                        registered.push(HOOKS[i].to_string());
                    }
                }
            }
        } else {
            for h in HOOKS {
                logs.insert(h.into(), json!([]));
            }
        }
        // the manager also answers for past epochs by id: the last few, from the first one on
        let mut byid: Vec<Value> = vec![];
        if self.kind == "manager" {
            for k in id.saturating_sub(3).max(self.first)..=id {
                if let Ok(r) = self.w.query::<EpochResponse, _>(&self.clock, &QueryMsg::Epoch { id: k }) {
                    byid.push(json!({"id": r.epoch.id.to_string(), "asked": k.to_string(), "start": r.epoch.start_time.nanos().to_string()}));
                } else { byid.push(json!({"id": "none", "asked": k.to_string(), "start": "0"})); }
            }
        }
        json!({"id": id.to_string(), "start": start.to_string(), "now": self.w.now_nanos().to_string(), "byid": byid,
               "hooks": registered, "logs": Value::Object(logs)})
    }

    fn boundary(&self) -> u64 {
        let (id, start) = self.current();
        if self.kind == "distributor" && id == 0 && start == 0 {
            self.genesis.max(self.dur)
        } else {
            start + self.dur
        }
    }

    pub fn tick_target(&self, class: &str) -> u64 {
        let now = self.w.now_nanos();
        let b = self.boundary();
        match class {
            "plus1" => now + 1,
            "before" => (now + 1).max(b - 1),
            "at" => (now + 1).max(b),
            "after" => (now + 1).max(b + 1),
            _ => now + 3 * self.dur,
        }
    }

    pub fn step(&mut self, rec: &mut Rec, run: u64, step: usize, op: &str, x: &str, actor_owner: bool) {
        let mut ev = serde_json::Map::new();
        ev.insert("run".into(), json!(run));
        ev.insert("step".into(), json!(step));
        ev.insert("ev".into(), json!(op));
        ev.insert("actor".into(), json!(if actor_owner { "owner" } else { "user1" }));
        let sender = if actor_owner { self.w.owner.clone() } else { self.user.clone() };
        if op == "tick" {
            let t = self.tick_target(x);
            let now = self.w.now_nanos();
            self.w.advance(t - now, 1);
            ev.insert("args".into(), json!({"class": x, "to": t.to_string()}));
            ev.insert("res".into(), json!("ok"));
            ev.insert("err".into(), json!(""));
            ev.insert("dpre".into(), json!(""));
            ev.insert("dpost".into(), json!(""));
        } else {
            let dpre = self.w.digest();
            let mut reconf_genesis = self.genesis;
            let rs = match (op, self.kind.as_str()) {
                ("create", "manager") => self.w.exec(&sender, &self.clock.clone(), &ExecuteMsg::CreateEpoch {}, &[]),
                ("create", _) => self.w.exec(&sender, &self.clock.clone(), &white_whale_std::fee_distributor::ExecuteMsg::NewEpoch {}, &[]),
                // the admin re-configures the clock: a new duration from now on (x = "<duration ns>" or "<duration ns>+owner" when
                // the message also names the - unchanged - owner)
                // the distributor's owner re-configures its clock: a new duration, and - the message has no optional parts - a
                // genesis time, either the one in force or (x = "<duration ns>+genesis") the time of the change.  Once an epoch
                // exists the genesis says nothing any more: the next epoch starts where the current one ends
                ("reconfig", "distributor") => {
                    let new_genesis = x.ends_with("+genesis");
                    let d: u64 = x.trim_end_matches("+genesis").parse().unwrap();
                    let g = if new_genesis { self.w.now_nanos() } else { self.genesis };
                    reconf_genesis = g;
                    let no_epoch_yet = self.obs()["id"].as_str().map(|i| i == "0").unwrap_or(false);
                    let rs = self.w.exec(&sender, &self.clock.clone(), &white_whale_std::fee_distributor::ExecuteMsg::UpdateConfig {
                        owner: None, bonding_contract_addr: None, fee_collector_addr: None, grace_period: None, distribution_asset: None,
                        epoch_config: Some(EpochConfig { duration: Uint64::new(d), genesis_epoch: Uint64::new(g) }) }, &[]);
                    if rs.is_ok() { self.dur = d; if no_epoch_yet { self.genesis = g; } }
                    rs
                }
                ("reconfig", _) => {
                    let with_owner = x.ends_with("+owner");
                    let d: u64 = x.trim_end_matches("+owner").parse().unwrap();
                    let rs = self.w.exec(&sender, &self.clock.clone(), &ExecuteMsg::UpdateConfig {
                        owner: if with_owner { Some(self.w.owner.to_string()) } else { None },
                        epoch_config: Some(EpochConfig { duration: Uint64::new(d), genesis_epoch: Uint64::new(self.genesis) }) }, &[]);
                    if rs.is_ok() { self.dur = d; }
                    rs
                }
                ("addhook", _) => {
                    let i = HOOKS.iter().position(|h| *h == x).unwrap();
                    let h = self.hooks[i].to_string();
                    self.w.exec(&sender, &self.clock.clone(), &ExecuteMsg::AddHook { contract_addr: h }, &[])
                }
                _ => {
                    let i = HOOKS.iter().position(|h| *h == x).unwrap();
                    let h = self.hooks[i].to_string();
                    self.w.exec(&sender, &self.clock.clone(), &ExecuteMsg::RemoveHook { contract_addr: h }, &[])
                }
            };
            let dpost = self.w.digest();
            ev.insert("args".into(), if op == "reconfig" { json!({"x": x, "dur": x.trim_end_matches("+owner").trim_end_matches("+genesis"), "genesis": reconf_genesis.to_string()}) } else { json!({"x": x}) });
            ev.insert("res".into(), json!(rs.tag()));
            ev.insert("err".into(), jerr(&rs.err()));
            ev.insert("dpre".into(), json!(dpre));
            ev.insert("dpost".into(), json!(dpost));
        }
        ev.insert("obs".into(), self.obs());
        rec.emit(Value::Object(ev));
    }
}

const DURS: [u64; 3] = [DAY, DAY + 1, 7 * DAY];

fn reset(rec: &mut Rec, p: &EpochRun, seed: u64, run: u64, sched: Option<&str>, table: usize) {
    let mut base = json!({"ev": "reset", "suite": "epochs", "run": run, "seed": seed.to_string(), "table": table,
        "extra": {"kind": p.kind},
        "cfg": {"kind": p.kind, "dur": p.dur.to_string(), "genesis": p.genesis.to_string(), "first": p.first.to_string()},
        "obs": p.obs()});
    if let Some(l) = sched {
        base.as_object_mut().unwrap().insert("sched".into(), serde_json::from_str::<Value>(l).unwrap());
    }
    rec.emit(base);
}

pub fn run_schedule(rec: &mut Rec, seed: u64, run: u64, kind: &str, line: &str, table: usize) {
    let v: Value = serde_json::from_str(line).unwrap();
    let ops = v["ops"].as_array().unwrap();
    let dur = DURS[table % DURS.len()];
    let goff = [3 * DAY / 4 + 879_305_533, 1, 10 * DAY + 500_000_000][(table / DURS.len()) % 3];
    let mut p = EpochRun::new(kind, dur, goff, [0u64, 1, 5][(table + table / 3) % 3]);
    reset(rec, &p, seed, run, Some(line), table);
    for (i, o) in ops.iter().enumerate() {
        let op = o["op"].as_str().unwrap();
        let x = o["x"].as_str().unwrap();
        // hooks are managed by the admin; epochs are created by anyone
        p.step(rec, run, i, op, x, op != "create");
    }
}

pub fn run_random(rec: &mut Rec, seed: u64, run: u64, kind: &str, nops: usize) {
    let mut r = gen::rng(seed, run ^ 0x4550_4f43);
    let table = r.gen_range(0..9usize);
    let dur = DURS[table % 3];
    let goff = [3 * DAY / 4 + 879_305_533, 1, 10 * DAY + 500_000_000][(table / 3) % 3];
    let mut p = EpochRun::new(kind, dur, goff, [0u64, 1, 5][(table + table / 3) % 3]);
    reset(rec, &p, seed, run, None, table);
    for step in 0..nops {
        match r.gen_range(0..100) {
            0..=39 => {
                let by_owner = r.gen_bool(0.3);
                p.step(rec, run, step, "create", "any", by_owner)
            }
            40..=79 => {
                let c = *gen::pick(&mut r, &["plus1", "before", "at", "after", "late", "at", "before"]);
                p.step(rec, run, step, "tick", c, true)
            }
            80..=84 if kind == "manager" => {
                let d = *gen::pick(&mut r, &DURS);
                let x = format!("{}{}", d, if r.gen_bool(0.5) { "+owner" } else { "" });
                let by_owner = r.gen_bool(0.8);
                p.step(rec, run, step, "reconfig", &x, by_owner)
            }
            _ if kind == "manager" => {
                let h = *gen::pick(&mut r, &HOOKS);
                let op = if r.gen_bool(0.6) { "addhook" } else { "removehook" };
                let by_owner = r.gen_bool(0.8);
                p.step(rec, run, step, op, h, by_owner)
            }
            80..=86 => {
                let d = *gen::pick(&mut r, &DURS);
                let x = format!("{}{}", d, if r.gen_bool(0.6) { "+genesis" } else { "" });
                let by_owner = r.gen_bool(0.8);
                p.step(rec, run, step, "reconfig", &x, by_owner)
            }
            _ => p.step(rec, run, step, "tick", "plus1", true),
        }
    }
}

pub fn main(seed: u64, first: u64, runs: u64, nops: usize, out: &str, kind: &str, sched: Option<&String>, table: Option<usize>) {
    let mut rec = Rec::create(out);
    if let Some(path) = sched {
        let f = std::io::BufReader::new(std::fs::File::open(path).expect("schedule file"));
        let lines: Vec<String> = f.lines().map(|l| l.unwrap()).filter(|l| !l.trim().is_empty()).collect();
        let mut run = first;
        for (i, line) in lines.iter().enumerate() {
            if runs > 0 && (i as u64) >= runs {
                break;
            }
            run_schedule(&mut rec, seed, run, kind, line, table.unwrap_or((seed as usize) + i) % 9);
            run += 1;
        }
    } else {
        for run in first..first + runs {
            run_random(&mut rec, seed, run, kind, nops);
        }
    }
    let n = rec.finish();
    eprintln!("epochs[{kind}]: {n} lines -> {out}");
}
