//! Trio suite (C04, contract level): amplification ramps on the real three-asset pool (through the factory, by the
//! owner) at every block height class, interleaved with swaps / deposits / withdrawals whose effect on the curve
//! invariant per LP token and on solvency is observed.
use cosmwasm_std::{coin, Uint128};
use rand::Rng;
use serde_json::{json, Value};

use white_whale_std::pool_network::trio::{ConfigResponse, Cw20HookMsg, ExecuteMsg, PoolResponse, ProtocolFeesResponse, QueryMsg, RampAmp, SimulationResponse};

use crate::full::*;
use crate::gen;
use crate::rec::Rec;
use crate::world::*;

/// the pool under test: Full's all-native trio, or (odd runs) a second trio whose third asset is a cw20 token
struct Tp { trio: cosmwasm_std::Addr, lp: cosmwasm_std::Addr, assets: [A; 3] }
pub const MIN_RAMP_BLOCKS: u64 = 10_000;

fn obs(f: &Full, tp: &Tp) -> Value {
    let c: ConfigResponse = f.w.query(&tp.trio, &QueryMsg::Config {}).unwrap();
    let p: PoolResponse = f.w.query(&tp.trio, &QueryMsg::Pool {}).unwrap();
    let fees: ProtocolFeesResponse = f.w.query(&tp.trio, &QueryMsg::ProtocolFees { asset_id: None, all_time: Some(false) }).unwrap();
    let by = |v: &Vec<white_whale_std::pool_network::asset::Asset>| -> Vec<u128> {
        tp.assets.iter().map(|d| v.iter().find(|a| a.info == d.info()).map(|a| a.amount.u128()).unwrap_or(0)).collect()
    };
    let bal: Vec<u128> = tp.assets.iter().map(|d| f.w.balance(&tp.trio, d)).collect();
    let all: ProtocolFeesResponse = f.w.query(&tp.trio, &QueryMsg::ProtocolFees { asset_id: None, all_time: Some(true) }).unwrap();
    let burned: ProtocolFeesResponse = f.w.query(&tp.trio, &QueryMsg::BurnedFees { asset_id: None }).unwrap();
    let col: Vec<u128> = tp.assets.iter().map(|d| f.w.balance(&f.hub.collector, d)).collect();
    let circ: Vec<u128> = tp.assets.iter().map(|d| f.w.supply(d)).collect();
    json!({"feeAll": sv(&by(&all.fees)), "burned": sv(&by(&burned.fees)), "col": sv(&col), "circ": sv(&circ),"init": c.initial_amp.to_string(), "future": c.future_amp.to_string(), "start": c.initial_amp_block.to_string(),
        "stop": c.future_amp_block.to_string(), "height": f.w.app.block_info().height.to_string(),
        "tog": {"d": c.feature_toggle.deposits_enabled, "w": c.feature_toggle.withdrawals_enabled, "s": c.feature_toggle.swaps_enabled},
        "res": sv(&by(&p.assets)), "S": s(p.total_share.u128()), "fee": sv(&by(&fees.fees)), "bal": sv(&bal)})
}

pub fn run_random(rec: &mut Rec, seed: u64, run: u64, nops: usize) {
    let mut r = gen::rng(seed, run ^ 0x5452_494f);
    let mut f = Full::new(true);
    let owner = f.owner.clone();
    let tp = if run % 2 == 0 {
        Tp { trio: f.trio.clone(), lp: f.trio_lp.clone(), assets: [f.whale.clone(), f.usdc.clone(), f.atom.clone()] }
    } else {
        let assets = [f.whale.clone(), f.usdc.clone(), f.tka.clone()];
        let (trio, lp) = f.w.create_trio(&f.hub.pool_factory.clone(), [&assets[0], &assets[1], &assets[2]], trio_fee(ONE / 1000, ONE / 500, 0), 100, "trio2").unwrap();
        let lpu = f.lp_user.clone();
        let rs = f.w.provide_trio(&lpu, &trio, [&assets[0], &assets[1], &assets[2]], [1_000_000_000, 1_000_000_000, 1_000_000_000]);
        assert!(rs.is_ok(), "{}", rs.err());
        Tp { trio, lp, assets }
    };
    // per-run fee triple (protocol, swap, burn), set by the owner through the factory
    let fee_choices: [u128; 6] = [0, ONE / 1000, ONE / 500, ONE / 100, ONE / 10, 1];
    let fees: [u128; 3] = [*gen::pick(&mut r, &fee_choices), *gen::pick(&mut r, &fee_choices), *gen::pick(&mut r, &fee_choices)];
    let rs0 = f.w.exec(&owner, &f.hub.pool_factory.clone(), &white_whale_std::pool_network::factory::ExecuteMsg::UpdateTrioConfig {
        trio_addr: tp.trio.to_string(), owner: None, fee_collector_addr: None, pool_fees: Some(trio_fee(fees[0], fees[1], fees[2])), feature_toggle: None, amp_factor: None }, &[]);
    assert!(rs0.is_ok(), "trio fee update: {:?}", rs0.err());
    rec.emit(json!({"ev": "reset", "suite": "trio", "run": run, "seed": seed.to_string(), "ops": nops,
        "cfg": {"fees": {"p": s(fees[0]), "s": s(fees[1]), "b": s(fees[2])}}, "obs": obs(&f, &tp)}));
    let user = f.user.clone();
    let lp_user = f.lp_user.clone();
    for step in 0..nops {
        let o = obs(&f, &tp);
        let height: u64 = o["height"].as_str().unwrap().parse().unwrap();
        // current amp as the contract would compute it
        let (init, fut, start, stop): (u64, u64, u64, u64) = (o["init"].as_str().unwrap().parse().unwrap(), o["future"].as_str().unwrap().parse().unwrap(),
            o["start"].as_str().unwrap().parse().unwrap(), o["stop"].as_str().unwrap().parse().unwrap());
        let cur: u64 = if height >= stop { fut } else if fut >= init { init + ((fut - init) as u128 * (height - start) as u128 / (stop - start) as u128) as u64 }
            else { init - ((init - fut) as u128 * (height - start) as u128 / (stop - start) as u128) as u64 };
        let mut ev = serde_json::Map::new();
        ev.insert("run".into(), json!(run));
        ev.insert("step".into(), json!(step));
        let (name, actor, args, rs, dpre, dpost);
        // the first steps of most runs climb the amplification by legitimate tenfold ramps (100 -> 10^3 -> ... -> 10^6),
        // so that the random phase also starts from large values
        let climb = (run % 5) as usize;
        let forced = if step < 2 * climb { Some(step % 2) } else { None };
        let sel = match forced { Some(0) => 0, Some(_) => 50, None => r.gen_range(0..100) };
        match sel {
            // the three pause switches, set as a triple through the factory
            0..=44 if forced.is_none() && r.gen_bool(0.15) => {
                let c: ConfigResponse = f.w.query(&tp.trio, &QueryMsg::Config {}).unwrap();
                let flip = |r: &mut rand::rngs::StdRng, now: bool| -> bool { match r.gen_range(0..10) { 0..=4 => now, 5..=7 => true, _ => false } };
                let (d, wd, sw) = (flip(&mut r, c.feature_toggle.deposits_enabled), flip(&mut r, c.feature_toggle.withdrawals_enabled), flip(&mut r, c.feature_toggle.swaps_enabled));
                let by_owner = r.gen_bool(0.9);
                let sender = if by_owner { owner.clone() } else { user.clone() };
                dpre = f.w.digest();
                rs = f.w.exec(&sender, &f.hub.pool_factory.clone(), &white_whale_std::pool_network::factory::ExecuteMsg::UpdateTrioConfig {
                    trio_addr: tp.trio.to_string(), owner: None, fee_collector_addr: None, pool_fees: None,
                    feature_toggle: Some(white_whale_std::pool_network::trio::FeatureToggle { withdrawals_enabled: wd, deposits_enabled: d, swaps_enabled: sw }), amp_factor: None }, &[]);
                dpost = f.w.digest();
                name = "settog"; actor = if by_owner { "owner" } else { "user1" };
                args = json!({"d": d, "w": wd, "s": sw});
            }
            0..=44 => {
                let fa: u64 = if forced.is_some() { cur.saturating_mul(10).min(1_000_000) } else { match r.gen_range(0..12) {
                    0 => cur.saturating_mul(10), 1 => cur.saturating_mul(10) + 1, 2 => (cur / 10).max(1), 3 => (cur - 1) / 10, 4 => (cur + 9) / 10,
                    5 => 0, 6 => 1, 7 => 1_000_000, 8 => 1_000_001, 9 => cur, 10 => cur.saturating_mul(2).min(1_000_000), _ => gen::log_uniform(&mut r, 1, 1_000_000) as u64 } };
                let fb: u64 = if forced.is_some() { height + MIN_RAMP_BLOCKS } else { match r.gen_range(0..6) { 0 => height + MIN_RAMP_BLOCKS - 1, 1 => height + MIN_RAMP_BLOCKS, 2 => height, _ => height + MIN_RAMP_BLOCKS + r.gen_range(0..50_000u64) } };
                let by_owner = forced.is_some() || r.gen_bool(0.9);
                let sender = if by_owner { owner.clone() } else { user.clone() };
                dpre = f.w.digest();
                rs = f.w.exec(&sender, &f.hub.pool_factory.clone(), &white_whale_std::pool_network::factory::ExecuteMsg::UpdateTrioConfig {
                    trio_addr: tp.trio.to_string(), owner: None, fee_collector_addr: None, pool_fees: None, feature_toggle: None,
                    amp_factor: Some(RampAmp { future_a: fa, future_block: fb }) }, &[]);
                dpost = f.w.digest();
                name = "ramp"; actor = if by_owner { "owner" } else { "user1" };
                args = json!({"fa": fa.to_string(), "fb": fb.to_string()});
            }
            45..=64 => {
                let blocks = if forced.is_some() { MIN_RAMP_BLOCKS } else { *gen::pick(&mut r, &[1u64, 1, 100, 5_000, 9_999, 10_000, 10_001, 30_000, 60_000]) };
                f.w.advance(blocks * 6_000_000_000, blocks);
                dpre = String::new(); dpost = String::new();
                rs = Res::Ok(Default::default());
                name = "tick"; actor = "owner"; args = json!({"blocks": blocks.to_string()});
            }
            65..=84 => {
                let i = r.gen_range(0..3usize);
                let j = (i + 1 + r.gen_range(0..2usize)) % 3;
                let resv: u128 = o["res"][i].as_str().unwrap().parse().unwrap();
                let offer = gen::log_uniform(&mut r, 1, (resv / 3).max(2));
                let k = 3 - i - j;
                // one swap in eight aims at the collection threshold: pending protocol fee of the ask asset = 999 / 1000 / 1001
                let offer = if r.gen_range(0..8) == 0 {
                    let pending: u128 = o["fee"][j].as_str().unwrap().parse().unwrap();
                    let target = 999 + r.gen_range(0..3u128);
                    if target > pending {
                        let need = target - pending;
                        let pf_of = |f: &Full, x: u128| -> u128 { f.w.query::<SimulationResponse, _>(&tp.trio, &QueryMsg::Simulation { offer_asset: tp.assets[i].asset(x), ask_asset: tp.assets[j].asset(0) }).map(|s| s.protocol_fee_amount.u128()).unwrap_or(0) };
                        let (mut lo, mut hi) = (1u128, (resv / 2).max(2));
                        while lo < hi { let mid = lo + (hi - lo) / 2; if pf_of(&f, mid) >= need { hi = mid } else { lo = mid + 1 } }
                        if pf_of(&f, lo) == need { lo } else { offer }
                    } else { offer }
                } else { offer };
                let rv = |x: usize| -> u128 { o["res"][x].as_str().unwrap().parse().unwrap() };
                let curve = {
                    let c = stableswap_3pool::verif_hooks::StableSwap::new(init, fut, height, start, stop);
                    match std::panic::catch_unwind(std::panic::AssertUnwindSafe(|| c.swap_to(Uint128::new(offer), Uint128::new(rv(i)), Uint128::new(rv(j)), Uint128::new(rv(k))))) {
                        Ok(Some(x)) => s(x.amount_swapped.u128()), _ => json!("none") }
                };
                let sim = match f.w.query::<SimulationResponse, _>(&tp.trio, &QueryMsg::Simulation { offer_asset: tp.assets[i].asset(offer), ask_asset: tp.assets[j].asset(0) }) {
                    Ok(x) => json!({"res": "ok", "ret": s(x.return_amount.u128()), "sf": s(x.swap_fee_amount.u128()), "pf": s(x.protocol_fee_amount.u128()), "bf": s(x.burn_fee_amount.u128()), "spread": s(x.spread_amount.u128())}),
                    Err(_) => json!({"res": "rejected", "ret": "0", "sf": "0", "pf": "0", "bf": "0", "spread": "0"}) };
                dpre = f.w.digest();
                let wrong = matches!(tp.assets[i], A::Cw20(_)) && r.gen_range(0..8) == 0;
                // slippage limits around what the quote says: max spread none / cap / realised +- one atomic / 0 / 1 %, and
                // (a quarter of the swaps) a belief price around 1
                let (g, sp) = {
                    let n = |k: &str| -> u128 { sim[k].as_str().unwrap().parse().unwrap() };
                    (n("ret") + n("sf") + n("pf") + n("bf"), n("spread"))
                };
                let realised: Option<u128> = if g + sp > 0 && sp < (1 << 68) { Some(((cosmwasm_std::Uint256::from(sp) * cosmwasm_std::Uint256::from(ONE)) / cosmwasm_std::Uint256::from(g + sp)).to_string().parse().unwrap()) } else { None };
                let ms: Option<u128> = match (r.gen_range(0..10), realised) { (0, _) => None, (1, Some(x)) => Some(x), (2, Some(x)) => Some(x + 1), (3, Some(x)) => Some(x.saturating_sub(1)), (4, _) => Some(0), (5, _) => Some(ONE / 100), _ => Some(ONE / 2) };
                let bp: Option<u128> = if r.gen_range(0..4) == 0 { Some(match r.gen_range(0..5) { 0 => ONE, 1 => ONE - ONE / 1000, 2 => ONE + ONE / 1000, 3 => ONE / 2, _ => ONE + ONE / 100 }) } else { None };
                let (msd, bpd) = (ms.map(|x| cosmwasm_std::Decimal::new(Uint128::new(x))), bp.map(|x| cosmwasm_std::Decimal::new(Uint128::new(x))));
                rs = match &tp.assets[i] {
                    A::Native(dn) => f.w.exec(&user, &tp.trio.clone(), &ExecuteMsg::Swap { offer_asset: tp.assets[i].asset(offer), ask_asset: tp.assets[j].info(),
                        belief_price: bpd, max_spread: msd, to: None }, &[coin(offer, dn.as_str())]),
                    // one in eight cw20 offers is named in the direct message (for native offers only) with one coin of the first
                    // asset attached instead of the tokens: nothing is paid in, it must be refused
                    A::Cw20(_) if wrong => f.w.exec(&user, &tp.trio.clone(), &ExecuteMsg::Swap { offer_asset: tp.assets[i].asset(offer), ask_asset: tp.assets[j].info(),
                        belief_price: bpd, max_spread: msd, to: None }, &[coin(1, "uwhale")]),
                    A::Cw20(t) => f.w.cw20_send(&user, &t.clone(), &tp.trio.clone(), offer, &Cw20HookMsg::Swap { ask_asset: tp.assets[j].info(), belief_price: bpd, max_spread: msd, to: None }),
                };
                dpost = f.w.digest();
                name = "swap"; actor = "user1";
                let g = |k: &str| rs.attr("swap", k).unwrap_or("0".into());
                args = json!({"i": i + 1, "j": j + 1, "k": k + 1, "offer": s(offer), "amp": cur.to_string(), "curve": curve, "wrong_path": wrong, "ms": ms.map(s).unwrap_or(json!("none")), "bp": bp.map(s).unwrap_or(json!("none")), "sim": sim,
                    "out": {"ret": g("return_amount"), "sf": g("swap_fee_amount"), "pf": g("protocol_fee_amount"), "bf": g("burn_fee_amount"), "spread": g("spread_amount")}});
            }
            85..=87 => {
                dpre = f.w.digest();
                rs = f.w.exec(&user, &tp.trio.clone(), &ExecuteMsg::CollectProtocolFees {}, &[]);
                dpost = f.w.digest();
                name = "collect"; actor = "user1"; args = json!({});
            }
            88..=93 => {
                let d: Vec<u128> = (0..3).map(|i| { let rv: u128 = o["res"][i].as_str().unwrap().parse().unwrap(); match r.gen_range(0..3) { 0 => rv / 10 + 1, _ => gen::log_uniform(&mut r, 1, rv.max(2)) } }).collect();
                let (a0, a1, a2) = (tp.assets[0].clone(), tp.assets[1].clone(), tp.assets[2].clone());
                let rv = |x: usize| -> u128 { o["res"][x].as_str().unwrap().parse().unwrap() };
                let sup: u128 = o["S"].as_str().unwrap().parse().unwrap();
                let curve = {
                    let c = stableswap_3pool::verif_hooks::StableSwap::new(init, fut, height, start, stop);
                    match std::panic::catch_unwind(std::panic::AssertUnwindSafe(|| c.compute_mint_amount_for_deposit(Uint128::new(d[0]), Uint128::new(d[1]), Uint128::new(d[2]),
                        Uint128::new(rv(0)), Uint128::new(rv(1)), Uint128::new(rv(2)), Uint128::new(sup)))) {
                        Ok(Some(x)) => s(x.u128()), _ => json!("none") }
                };
                dpre = f.w.digest();
                // slippage tolerance: none, 0, 1 %, 50 %, 1, just above 1
                let slip: Option<u128> = match r.gen_range(0..8) { 0 => Some(0), 1 => Some(ONE / 100), 2 => Some(ONE / 2), 3 => Some(ONE), 4 => Some(ONE + 1), 5 => Some(ONE / 1000), _ => None };
                rs = f.w.provide_trio_slip(&user, &tp.trio.clone(), [&a0, &a1, &a2], [d[0], d[1], d[2]], slip);
                dpost = f.w.digest();
                name = "provide"; actor = "user1";
                args = json!({"d": sv(&d), "amp": cur.to_string(), "curve": curve, "slip": slip.map(s).unwrap_or(json!("none")), "minted": rs.attr("provide_liquidity", "share").unwrap_or("0".into())});
            }
            _ => {
                let lpa = A::Cw20(tp.lp.clone());
                let have = f.w.balance(&lp_user, &lpa);
                let amt = gen::log_uniform(&mut r, 1, (have / 20).max(2));
                dpre = f.w.digest();
                // one in eight: the direct withdrawal message with a coin attached instead of LP tokens handed in
                let direct = r.gen_range(0..8) == 0;
                rs = if direct && r.gen_bool(0.5) {
                    // a forged cw20 receipt: the caller sends the Receive message itself, naming itself as the sender of LP tokens
                    f.w.exec(&lp_user, &tp.trio.clone(), &forged_receive(&lp_user, amt.min(1_000_000), &Cw20HookMsg::WithdrawLiquidity {}), &[])
                } else if direct {
                    let dn = match &tp.assets[0] { A::Native(d) => d.clone(), _ => "uwhale".to_string() };
                    f.w.exec(&lp_user, &tp.trio.clone(), &ExecuteMsg::WithdrawLiquidity {}, &[coin(amt.min(1_000_000), dn)])
                } else {
                    f.w.cw20_send(&lp_user, &tp.lp.clone(), &tp.trio.clone(), amt, &Cw20HookMsg::WithdrawLiquidity {})
                };
                dpost = f.w.digest();
                name = if direct { "wdirect" } else { "withdraw" }; actor = "lpuser"; args = json!({"amt": s(if direct { amt.min(1_000_000) } else { amt }), "amp": cur.to_string()});
            }
        }
        ev.insert("ev".into(), json!(name));
        ev.insert("actor".into(), json!(actor));
        ev.insert("args".into(), args);
        ev.insert("res".into(), json!(rs.tag()));
        ev.insert("err".into(), jerr(&rs.err()));
        ev.insert("disabled".into(), json!(rs.err().contains("Operation disabled")));
        ev.insert("dpre".into(), json!(dpre));
        ev.insert("dpost".into(), json!(dpost));
        ev.insert("obs".into(), obs(&f, &tp));
        rec.emit(Value::Object(ev));
    }
    let _ = Uint128::zero();
}

pub fn main(seed: u64, first: u64, runs: u64, nops: usize, out: &str) {
    let mut rec = Rec::create(out);
    for run in first..first + runs { run_random(&mut rec, seed, run, nops); }
    let n = rec.finish();
    eprintln!("trio: {n} lines -> {out}");
}
