//! Access suite (C16): the matrix contract x privileged variant x caller role x {before, after
//! ownership transfer}, enumerated by TLC from the policy table in spec/Access.tla and executed on
//! the fully wired hub.  The harness only supplies a payload per variant and a sender per role.
use std::io::BufRead;

use cosmwasm_std::{to_json_binary, Addr, CosmosMsg, Decimal, Uint128, Uint64, WasmMsg};
use rand::seq::SliceRandom;
use rand::Rng;
use serde::Serialize;
use serde_json::{json, Value};

use white_whale_std::pool_network::asset::{AssetInfo, PairType};
use white_whale_std::pool_network::router::{SwapOperation, SwapRoute};

use crate::adversary::AdvExecute;
use crate::full::*;
use crate::gen;
use crate::rec::Rec;
use crate::suites::vault::vault_fee;
use crate::variants;
use crate::world::*;

fn addr_of(f: &Full, c: &str) -> Addr {
    match c {
        "pair" => f.pair1.clone(),
        "trio" => f.trio.clone(),
        "vault" => f.vault.clone(),
        "pool_factory" => f.hub.pool_factory.clone(),
        "pool_router" => f.hub.pool_router.clone(),
        "incentive_factory" => f.incentive_factory.clone(),
        "frontend_helper" => f.helper.clone(),
        "fee_collector" => f.hub.collector.clone(),
        "fee_distributor" => f.hub.distributor.clone(),
        "whale_lair" => f.hub.lair.clone(),
        "vault_factory" => f.hub.vault_factory.clone(),
        "vault_router" => f.hub.vault_router.clone(),
        "epoch_manager" => f.epoch_manager.clone(),
        "incentive" => f.incentive.clone(),
        _ => panic!("unknown contract {c}"),
    }
}

fn sender_of(f: &Full, c: &str, role: &str) -> Addr {
    match role {
        "owner" => f.owner.clone(),
        "newowner" => f.newowner.clone(),
        "factory" => match c {
            "vault" => f.hub.vault_factory.clone(),
            "incentive" => f.incentive_factory.clone(),
            _ => f.hub.pool_factory.clone(),
        },
        "sibling" => f.adv.clone(),
        "user" => f.user.clone(),
        "self" => addr_of(f, c),
        "distributor" => f.hub.distributor.clone(),
        "vault" => f.vault.clone(),
        _ => panic!("unknown role {role}"),
    }
}

fn bin<M: Serialize>(m: &M) -> cosmwasm_std::Binary {
    to_json_binary(m).unwrap()
}

/// a payload for (contract, variant) that is valid in the prepared world
/// Second payload shape of the configuration updates: nothing but a new owner, and the caller names itself (for the
/// authorised caller that is a transfer to itself).  The first shape changes a setting and leaves the owner alone;
/// a sender check that only guards one of the two branches shows with the other.
fn payload_owner_grab(f: &Full, c: &str, v: &str, sender: &Addr) -> Option<cosmwasm_std::Binary> {
    use white_whale_std::pool_network::factory::ExecuteMsg as PF;
    use white_whale_std::vault_network::vault_factory::ExecuteMsg as VF;
    let me = Some(sender.to_string());
    let vparams = white_whale_std::vault_network::vault::UpdateConfigParams {
        flash_loan_enabled: None, deposit_enabled: None, withdraw_enabled: None, new_owner: me.clone(), new_vault_fees: None, new_fee_collector_addr: None };
    Some(match (c, v) {
        ("pair", "update_config") => bin(&white_whale_std::pool_network::pair::ExecuteMsg::UpdateConfig { owner: me, fee_collector_addr: None, pool_fees: None, feature_toggle: None }),
        ("trio", "update_config") => bin(&white_whale_std::pool_network::trio::ExecuteMsg::UpdateConfig { owner: me, fee_collector_addr: None, pool_fees: None, feature_toggle: None, amp_factor: None }),
        ("vault", "update_config") => bin(&white_whale_std::vault_network::vault::ExecuteMsg::UpdateConfig(vparams)),
        ("pool_factory", "update_config") => bin(&PF::UpdateConfig { owner: me, fee_collector_addr: None, token_code_id: None, pair_code_id: None, trio_code_id: None }),
        ("vault_factory", "update_config") => bin(&VF::UpdateConfig { owner: me, fee_collector_addr: None, vault_id: None, token_id: None }),
        ("vault_router", "update_config") => bin(&white_whale_std::vault_network::vault_router::ExecuteMsg::UpdateConfig { owner: me, vault_factory_addr: None }),
        ("frontend_helper", "update_config") => bin(&white_whale_std::pool_network::frontend_helper::ExecuteMsg::UpdateConfig { incentive_factory_addr: None, owner: me }),
        ("fee_collector", "update_config") => bin(&white_whale_std::fee_collector::ExecuteMsg::UpdateConfig { owner: me, pool_router: None, fee_distributor: None, pool_factory: None, vault_factory: None,
            take_rate: None, take_rate_dao_address: None, is_take_rate_active: None }),
        ("fee_distributor", "update_config") => bin(&white_whale_std::fee_distributor::ExecuteMsg::UpdateConfig { owner: me, bonding_contract_addr: None, fee_collector_addr: None, grace_period: None,
            distribution_asset: None, epoch_config: None }),
        ("whale_lair", "update_config") => bin(&white_whale_std::whale_lair::ExecuteMsg::UpdateConfig { owner: me, unbonding_period: None, growth_rate: None, fee_distributor_addr: None }),
        ("incentive_factory", "update_config") => bin(&white_whale_std::pool_network::incentive_factory::ExecuteMsg::UpdateConfig { owner: me, fee_collector_addr: None, fee_distributor_addr: None, create_flow_fee: None,
            max_concurrent_flows: None, incentive_code_id: None, max_flow_start_time_buffer: None, min_unbonding_duration: None, max_unbonding_duration: None }),
        ("epoch_manager", "update_config") => bin(&white_whale_std::epoch_manager::epoch_manager::ExecuteMsg::UpdateConfig { owner: me, epoch_config: None }),
        _ => return None,
    })
}

fn payload(f: &Full, c: &str, v: &str, k: u128, sender: &Addr) -> cosmwasm_std::Binary {
    use white_whale_std::pool_network::factory::ExecuteMsg as PF;
    use white_whale_std::vault_network::vault_factory::ExecuteMsg as VF;
    let pf = pool_fee(dec_atomics(ONE / 1000 + k), dec_atomics(ONE / 400), dec_atomics(k));
    let tf = trio_fee(ONE / 1000 + k, ONE / 400, k);
    let whale = f.whale.info();
    let usdc = f.usdc.info();
    let route = SwapRoute {
        offer_asset_info: whale.clone(),
        ask_asset_info: usdc.clone(),
        swap_operations: vec![SwapOperation::TerraSwap { offer_asset_info: whale.clone(), ask_asset_info: usdc.clone() }],
    };
    match (c, v) {
        ("pair", "update_config") => bin(&white_whale_std::pool_network::pair::ExecuteMsg::UpdateConfig {
            owner: None, fee_collector_addr: None, pool_fees: Some(pf), feature_toggle: None,
        }),
        ("trio", "update_config") => bin(&white_whale_std::pool_network::trio::ExecuteMsg::UpdateConfig {
            owner: None, fee_collector_addr: None, pool_fees: Some(tf), feature_toggle: None, amp_factor: None,
        }),
        ("vault", "update_config") => bin(&white_whale_std::vault_network::vault::ExecuteMsg::UpdateConfig(
            white_whale_std::vault_network::vault::UpdateConfigParams {
                flash_loan_enabled: Some(true), deposit_enabled: None, withdraw_enabled: None, new_owner: None,
                new_vault_fees: Some(vault_fee(ONE / 1000 + k, ONE / 500, 0)), new_fee_collector_addr: None,
            },
        )),
        ("vault", "callback") => bin(&white_whale_std::vault_network::vault::ExecuteMsg::Callback(
            white_whale_std::vault_network::vault::CallbackMsg::AfterTrade { old_balance: Uint128::zero(), loan_amount: Uint128::zero() },
        )),
        ("pool_factory", "update_config") => bin(&PF::UpdateConfig {
            owner: None, fee_collector_addr: Some(f.hub.collector.to_string()), token_code_id: None, pair_code_id: None, trio_code_id: None,
        }),
        ("pool_factory", "add_native_token_decimals") => bin(&PF::AddNativeTokenDecimals { denom: "ubtc".into(), decimals: 8 }),
        ("pool_factory", "create_pair") => bin(&PF::CreatePair {
            asset_infos: [f.atom.info(), f.tka.info()], pool_fees: pf, pair_type: PairType::ConstantProduct, token_factory_lp: false,
        }),
        ("pool_factory", "create_trio") => bin(&PF::CreateTrio {
            asset_infos: [f.whale.info(), f.atom.info(), f.tka.info()], pool_fees: tf, amp_factor: 50, token_factory_lp: false,
        }),
        ("pool_factory", "migrate_pair") => bin(&PF::MigratePair { contract: f.pair1.to_string(), code_id: None }),
        ("pool_factory", "migrate_trio") => bin(&PF::MigrateTrio { contract: f.trio.to_string(), code_id: None }),
        ("pool_factory", "remove_pair") => bin(&PF::RemovePair { asset_infos: [f.usdc.info(), f.tka.info()] }),
        ("pool_factory", "remove_trio") => bin(&PF::RemoveTrio { asset_infos: [f.whale.info(), f.usdc.info(), f.atom.info()] }),
        ("pool_factory", "update_pair_config") => bin(&PF::UpdatePairConfig {
            pair_addr: f.pair1.to_string(), owner: None, fee_collector_addr: None, pool_fees: Some(pf), feature_toggle: None,
        }),
        ("pool_factory", "update_trio_config") => bin(&PF::UpdateTrioConfig {
            trio_addr: f.trio.to_string(), owner: None, fee_collector_addr: None, pool_fees: Some(tf), feature_toggle: None, amp_factor: None,
        }),
        ("pool_router", "add_swap_routes") => bin(&white_whale_std::pool_network::router::ExecuteMsg::AddSwapRoutes { swap_routes: vec![route] }),
        ("pool_router", "remove_swap_routes") => bin(&white_whale_std::pool_network::router::ExecuteMsg::RemoveSwapRoutes { swap_routes: vec![route] }),
        ("pool_router", "execute_swap_operation") => bin(&white_whale_std::pool_network::router::ExecuteMsg::ExecuteSwapOperation {
            operation: SwapOperation::TerraSwap { offer_asset_info: whale, ask_asset_info: usdc }, to: Some(f.user.to_string()), max_spread: None,
        }),
        ("pool_router", "assert_minimum_receive") => bin(&white_whale_std::pool_network::router::ExecuteMsg::AssertMinimumReceive {
            asset_info: f.whale.info(), prev_balance: Uint128::zero(), minimum_receive: Uint128::new(1), receiver: f.user.to_string(),
        }),
        ("incentive_factory", "create_incentive") => bin(&white_whale_std::pool_network::incentive_factory::ExecuteMsg::CreateIncentive {
            lp_asset: AssetInfo::Token { contract_addr: f.pair2_lp.to_string() },
        }),
        ("incentive_factory", "update_config") => bin(&white_whale_std::pool_network::incentive_factory::ExecuteMsg::UpdateConfig {
            owner: None, fee_collector_addr: None, fee_distributor_addr: None, create_flow_fee: None,
            max_concurrent_flows: Some(6 + (k % 3) as u64), incentive_code_id: None, max_flow_start_time_buffer: None,
            min_unbonding_duration: None, max_unbonding_duration: None,
        }),
        ("incentive_factory", "migrate_incentives") => bin(&white_whale_std::pool_network::incentive_factory::ExecuteMsg::MigrateIncentives {
            incentive_address: None, code_id: f.w.codes.incentive,
        }),
        ("frontend_helper", "update_config") => bin(&white_whale_std::pool_network::frontend_helper::ExecuteMsg::UpdateConfig {
            incentive_factory_addr: Some(f.incentive_factory.to_string()), owner: None,
        }),
        ("fee_collector", "update_config") => bin(&white_whale_std::fee_collector::ExecuteMsg::UpdateConfig {
            owner: None, pool_router: None, fee_distributor: None, pool_factory: None, vault_factory: None,
            take_rate: Some(Decimal::permille(100 + (k % 7) as u64)), take_rate_dao_address: None, is_take_rate_active: None,
        }),
        ("fee_collector", "forward_fees") => bin(&white_whale_std::fee_collector::ExecuteMsg::ForwardFees {
            epoch: white_whale_std::fee_distributor::Epoch::default(), forward_fees_as: f.whale.info(),
        }),
        ("fee_distributor", "update_config") => bin(&white_whale_std::fee_distributor::ExecuteMsg::UpdateConfig {
            owner: None, bonding_contract_addr: None, fee_collector_addr: None, grace_period: Some(Uint64::new(4 + (k % 3) as u64)),
            distribution_asset: None, epoch_config: None,
        }),
        ("whale_lair", "update_config") => bin(&white_whale_std::whale_lair::ExecuteMsg::UpdateConfig {
            owner: None, unbonding_period: Some(Uint64::new(1_000_000_000_000 + k as u64)), growth_rate: None, fee_distributor_addr: None,
        }),
        ("vault_factory", "create_vault") => bin(&VF::CreateVault { asset_info: f.usdc.info(), fees: vault_fee(ONE / 1000, ONE / 1000, 0), token_factory_lp: false }),
        ("vault_factory", "migrate_vaults") => bin(&VF::MigrateVaults { vault_addr: None, vault_code_id: f.w.codes.vault }),
        ("vault_factory", "remove_vault") => bin(&VF::RemoveVault { asset_info: f.whale.info() }),
        ("vault_factory", "update_config") => bin(&VF::UpdateConfig { owner: None, fee_collector_addr: Some(f.hub.collector.to_string()), vault_id: None, token_id: None }),
        ("vault_factory", "update_vault_config") => bin(&VF::UpdateVaultConfig {
            vault_addr: f.vault.to_string(),
            params: white_whale_std::vault_network::vault::UpdateConfigParams {
                flash_loan_enabled: Some(true), deposit_enabled: Some(true), withdraw_enabled: None, new_owner: None,
                new_vault_fees: None, new_fee_collector_addr: None,
            },
        }),
        ("vault_router", "update_config") => bin(&white_whale_std::vault_network::vault_router::ExecuteMsg::UpdateConfig {
            owner: None, vault_factory_addr: Some(f.hub.vault_factory.to_string()),
        }),
        ("vault_router", "next_loan") => bin(&white_whale_std::vault_network::vault_router::ExecuteMsg::NextLoan {
            // the most adversarial payload: the caller names itself as the source vault of a registered asset
            initiator: f.user.clone(), source_vault: sender.to_string(), source_vault_asset_info: f.whale.info(),
            payload: vec![], to_loan: vec![], loaned_assets: vec![],
        }),
        ("vault_router", "complete_loan") => bin(&white_whale_std::vault_network::vault_router::ExecuteMsg::CompleteLoan {
            initiator: f.user.clone(), loaned_assets: vec![(f.vault.to_string(), f.whale.asset(0))],
        }),
        ("epoch_manager", "add_hook") => bin(&white_whale_std::epoch_manager::epoch_manager::ExecuteMsg::AddHook { contract_addr: f.adv.to_string() }),
        ("epoch_manager", "remove_hook") => bin(&white_whale_std::epoch_manager::epoch_manager::ExecuteMsg::RemoveHook { contract_addr: f.adv.to_string() }),
        ("epoch_manager", "update_config") => bin(&white_whale_std::epoch_manager::epoch_manager::ExecuteMsg::UpdateConfig { owner: None, epoch_config: None }),
        _ => panic!("no payload for {c}/{v}"),
    }
}

/// transfers the ownership of contract `c` to f.newowner through the path the code provides
fn transfer(f: &mut Full, c: &str) -> Res {
    use white_whale_std::pool_network::factory::ExecuteMsg as PF;
    let no = f.newowner.to_string();
    let owner = f.owner.clone();
    match c {
        "pair" => f.w.exec(&owner, &f.hub.pool_factory.clone(), &PF::UpdatePairConfig {
            pair_addr: f.pair1.to_string(), owner: Some(no), fee_collector_addr: None, pool_fees: None, feature_toggle: None }, &[]),
        "trio" => f.w.exec(&owner, &f.hub.pool_factory.clone(), &PF::UpdateTrioConfig {
            trio_addr: f.trio.to_string(), owner: Some(no), fee_collector_addr: None, pool_fees: None, feature_toggle: None, amp_factor: None }, &[]),
        "vault" => f.w.exec(&owner, &f.hub.vault_factory.clone(), &white_whale_std::vault_network::vault_factory::ExecuteMsg::UpdateVaultConfig {
            vault_addr: f.vault.to_string(),
            params: white_whale_std::vault_network::vault::UpdateConfigParams {
                flash_loan_enabled: None, deposit_enabled: None, withdraw_enabled: None, new_owner: Some(no), new_vault_fees: None, new_fee_collector_addr: None } }, &[]),
        "pool_factory" => f.w.exec(&owner, &f.hub.pool_factory.clone(), &PF::UpdateConfig {
            owner: Some(no), fee_collector_addr: None, token_code_id: None, pair_code_id: None, trio_code_id: None }, &[]),
        "pool_router" => {
            let r = cw_multi_test::Executor::execute(&mut f.w.app, owner, CosmosMsg::Wasm(WasmMsg::UpdateAdmin {
                contract_addr: f.hub.pool_router.to_string(), admin: no }));
            match r { Ok(x) => Res::Ok(x), Err(e) => Res::Rejected(e.to_string()) }
        }
        "incentive_factory" => f.w.exec(&owner, &f.incentive_factory.clone(), &white_whale_std::pool_network::incentive_factory::ExecuteMsg::UpdateConfig {
            owner: Some(no), fee_collector_addr: None, fee_distributor_addr: None, create_flow_fee: None, max_concurrent_flows: None,
            incentive_code_id: None, max_flow_start_time_buffer: None, min_unbonding_duration: None, max_unbonding_duration: None }, &[]),
        "frontend_helper" => f.w.exec(&owner, &f.helper.clone(), &white_whale_std::pool_network::frontend_helper::ExecuteMsg::UpdateConfig {
            incentive_factory_addr: None, owner: Some(no) }, &[]),
        "fee_collector" => f.w.exec(&owner, &f.hub.collector.clone(), &white_whale_std::fee_collector::ExecuteMsg::UpdateConfig {
            owner: Some(no), pool_router: None, fee_distributor: None, pool_factory: None, vault_factory: None, take_rate: None,
            take_rate_dao_address: None, is_take_rate_active: None }, &[]),
        "fee_distributor" => f.w.exec(&owner, &f.hub.distributor.clone(), &white_whale_std::fee_distributor::ExecuteMsg::UpdateConfig {
            owner: Some(no), bonding_contract_addr: None, fee_collector_addr: None, grace_period: None, distribution_asset: None, epoch_config: None }, &[]),
        "whale_lair" => f.w.exec(&owner, &f.hub.lair.clone(), &white_whale_std::whale_lair::ExecuteMsg::UpdateConfig {
            owner: Some(no), unbonding_period: None, growth_rate: None, fee_distributor_addr: None }, &[]),
        "vault_factory" => f.w.exec(&owner, &f.hub.vault_factory.clone(), &white_whale_std::vault_network::vault_factory::ExecuteMsg::UpdateConfig {
            owner: Some(no), fee_collector_addr: None, vault_id: None, token_id: None }, &[]),
        "vault_router" => f.w.exec(&owner, &f.hub.vault_router.clone(), &white_whale_std::vault_network::vault_router::ExecuteMsg::UpdateConfig {
            owner: Some(no), vault_factory_addr: None }, &[]),
        "epoch_manager" => f.w.exec(&owner, &f.epoch_manager.clone(), &white_whale_std::epoch_manager::epoch_manager::ExecuteMsg::UpdateConfig {
            owner: Some(no), epoch_config: None }, &[]),
        _ => panic!("no transfer for {c}"),
    }
}

/// order in which authorised calls are made so that each finds the world it needs
const AUTH_ORDER: [&str; 22] = [
    "update_config", "update_pair_config", "update_trio_config", "update_vault_config", "add_native_token_decimals",
    "create_pair", "create_trio", "create_vault", "create_incentive", "add_swap_routes", "remove_swap_routes",
    "add_hook", "remove_hook", "callback", "forward_fees", "migrate_pair", "migrate_trio", "migrate_vaults",
    "migrate_incentives", "remove_pair", "remove_trio", "remove_vault",
];

pub fn run_schedule(rec: &mut Rec, seed: u64, run: u64, line: &str) {
    let v: Value = serde_json::from_str(line).unwrap();
    let c = v["c"].as_str().unwrap().to_string();
    let phase = v["phase"].as_str().unwrap().to_string();
    let mut r = gen::rng(seed, run ^ 0x4143_4345);
    let mut f = Full::new(true);
    // the factory needs a balance of the denom it registers
    let pfac = f.hub.pool_factory.clone();
    f.w.mint_native(&pfac, "ubtc", 1);
    let discovered: Vec<String> = variants::all().into_iter().find(|(n, _)| *n == c).map(|(_, v)| v).unwrap_or_default();
    rec.emit(json!({"ev": "reset", "suite": "access", "run": run, "seed": seed.to_string(), "sched": v.clone(),
        "cfg": {"c": c, "phase": phase, "variants": discovered}}));
    let mut step = 0usize;
    if phase == "after" {
        let dpre = f.w.digest();
        let rs = transfer(&mut f, &c);
        let dpost = f.w.digest();
        rec.emit(json!({"ev": "transfer", "run": run, "step": step, "actor": "owner", "args": {"c": c},
            "res": rs.tag(), "err": jerr(&rs.err()), "dpre": dpre, "dpost": dpost}));
        step += 1;
    }
    let mut calls: Vec<Value> = v["calls"].as_array().unwrap().clone();
    calls.shuffle(&mut r);
    // per variant: every unauthorised role first (in random order), then the authorised one, so that each
    // unauthorised attempt is made in a state in which the same payload succeeds for the authorised caller
    let prio = |x: &Value| AUTH_ORDER.iter().position(|o| *o == x["v"].as_str().unwrap()).unwrap_or(99);
    calls.sort_by_key(|x| (prio(x), x["auth"].as_bool().unwrap()));
    let ordered = calls;
    for call in ordered.iter() {
        let variant = call["v"].as_str().unwrap();
        let role = call["role"].as_str().unwrap();
        let k: u128 = r.gen_range(0..1000);
        let target = addr_of(&f, &c);
        let sender = sender_of(&f, &c, role);
        let mut shapes: Vec<(u8, cosmwasm_std::Binary)> = vec![(0, payload(&f, &c, variant, k, &sender))];
        if let Some(b) = payload_owner_grab(&f, &c, variant, &sender) { shapes.push((1, b)); }
        for (shape, msg) in shapes {
        let dpre = f.w.digest();
        let rs = if role == "sibling" {
            // the adversary contract forwards the message: the callee sees a contract as sender
            let u = f.user.clone();
            f.w.exec(&u, &f.adv.clone(), &AdvExecute::Forward {
                msg: CosmosMsg::Wasm(WasmMsg::Execute { contract_addr: target.to_string(), msg, funds: vec![] }) }, &[])
        } else {
            let app = &mut f.w.app;
            let rr = std::panic::catch_unwind(std::panic::AssertUnwindSafe(|| {
                cw_multi_test::Executor::execute(app, sender.clone(), CosmosMsg::Wasm(WasmMsg::Execute {
                    contract_addr: target.to_string(), msg, funds: vec![] }))
            }));
            match rr {
                Ok(Ok(x)) => Res::Ok(x),
                Ok(Err(e)) => Res::Rejected(format!("{:#}", e)),
                Err(_) => Res::Aborted("panic".into()),
            }
        };
        let dpost = f.w.digest();
        rec.emit(json!({"ev": "call", "run": run, "step": step, "actor": role,
            "args": {"c": c, "v": variant, "role": role, "phase": phase, "shape": shape},
            "res": rs.tag(), "err": jerr(&rs.err()), "dpre": dpre, "dpost": dpost}));
        step += 1;
        }
    }
    // the wasm-level admin of a factory's children: a direct MsgMigrateContract by an account - the factory's owner before
    // or after the hand-over, or anybody else - to a code whose migrate accepts anything must be refused by the chain
    // (children are migrated through their factory only; the right follows the factory's ownership)
    let kids: Vec<(&str, Addr)> = match c.as_str() {
        "incentive_factory" => vec![("incentive", f.incentive.clone())],
        "pool_factory" => vec![("pair", f.pair1.clone()), ("trio", f.trio.clone())],
        "vault_factory" => vec![("vault", f.vault.clone())],
        _ => vec![],
    };
    if !kids.is_empty() {
        let code = f.w.app.store_code(crate::hookrecv::any_migrate_contract());
        for (kind, child) in kids {
            for role in ["user", "owner", "newowner"] {
                let sender = sender_of(&f, &c, role);
                let dpre = f.w.digest();
                let app = &mut f.w.app;
                let rr = std::panic::catch_unwind(std::panic::AssertUnwindSafe(|| {
                    cw_multi_test::Executor::migrate_contract(app, sender.clone(), child.clone(), &cosmwasm_std::Empty {}, code)
                }));
                let rs = match rr { Ok(Ok(x)) => Res::Ok(x), Ok(Err(e)) => Res::Rejected(format!("{:#}", e)), Err(_) => Res::Aborted("panic".into()) };
                let dpost = f.w.digest();
                rec.emit(json!({"ev": "adminmigrate", "run": run, "step": step, "actor": role,
                    "args": {"c": c, "child": kind, "role": role, "phase": phase},
                    "res": rs.tag(), "err": jerr(&rs.err()), "dpre": dpre, "dpost": dpost}));
                step += 1;
            }
        }
    }
}

pub fn main(seed: u64, first: u64, runs: u64, out: &str, sched: Option<&String>) {
    let mut rec = Rec::create(out);
    let path = sched.expect("access suite needs --sched (TLC-generated matrix)");
    let f = std::io::BufReader::new(std::fs::File::open(path).expect("schedule file"));
    let lines: Vec<String> = f.lines().map(|l| l.unwrap()).filter(|l| !l.trim().is_empty()).collect();
    let mut run = first;
    for (i, line) in lines.iter().enumerate() {
        if runs > 0 && (i as u64) >= runs {
            break;
        }
        run_schedule(&mut rec, seed, run, line);
        run += 1;
    }
    let n = rec.finish();
    eprintln!("access: {n} lines -> {out}");
}
