//! Incentive suite (C11, C12, C13): positions (open / expand / close / withdraw, also for a receiver), flows
//! (open / expand / close with native and cw20 reward and fee assets), permissionless weight snapshots at every
//! placement within an epoch, claims in every order, on the real incentive contract created by the real
//! incentive factory, with the repository's fee-distributor-mock as epoch source.
use std::io::BufRead;

use cosmwasm_std::{coin, Addr, Coin, Uint128};
use rand::rngs::StdRng;
use rand::Rng;
use serde_json::{json, Value};

use white_whale_std::pool_network::asset::{Asset, AssetInfo};
use white_whale_std::pool_network::incentive::{
    ExecuteMsg, FlowIdentifier, PositionsResponse, QueryMsg, QueryPosition, RewardsResponse,
    RewardsShareResponse,
};

use crate::gen;
use crate::rec::Rec;
use crate::world::*;

pub const USERS: [&str; 3] = ["user1", "user2", "user3"];
pub const DURS: [u64; 4] = [86_400, 86_401, 15_778_463, 31_536_000];
/// reward assets by name; "lp" is the staked LP asset itself used as a reward asset
pub const REWARDS: [&str; 5] = ["uwhale", "uusdc", "rwd", "rwd2", "lp"];

/// a flow named by its label (args.lbl, when not empty) or by its id
fn ident(args: &Value) -> FlowIdentifier {
    match args["lbl"].as_str() { Some(l) if !l.is_empty() => FlowIdentifier::Label(l.to_string()), _ => FlowIdentifier::Id(args["id"].as_u64().unwrap()) }
}

pub struct FlowView {
    pub flow_id: u64,
    pub flow_creator: String,
    pub info: AssetInfo,
    pub base: u128,
    pub funded: u128,
    pub claimed: u128,
    pub start_epoch: u64,
    pub end_epoch: u64,
    /// the flow's label ("" = none); labels need not be unique
    pub label: String,
    /// expansion history: epoch -> (amount, end epoch) from that epoch on
    pub hist: std::collections::BTreeMap<u64, (u128, u64)>,
    /// the emission ledger: epoch -> tokens emitted up to and including that epoch
    pub emitted: std::collections::BTreeMap<u64, u128>,
}

pub struct IncRun {
    pub w: World,
    pub factory: Addr,
    pub incentive: Addr,
    pub mock: Addr,
    pub collector: Addr,
    pub lp: Addr,
    pub lp_asset: A,
    pub rwd: Addr,
    pub rwd2: Addr,
    pub users: Vec<Addr>,
    pub fee_asset: String,
}

impl IncRun {
    /// fee_asset: "uwhale" (native, also a reward asset) or "rwd" (cw20, also a reward asset)
    pub fn new(fee_asset: &str) -> IncRun { IncRun::new_lp(fee_asset, false) }

    /// `native_lp`: the staked LP asset is a native denom ("ulp"; what token-factory pools use) instead of a cw20 token
    pub fn new_lp(fee_asset: &str, native_lp: bool) -> IncRun {
        let mut w = World::new();
        w.add_denom("uwhale");
        w.add_denom("uusdc");
        let mock = cw_multi_test::Executor::instantiate_contract(&mut w.app, w.codes.fee_distributor_mock, w.owner.clone(),
            &fee_distributor_mock::msg::InstantiateMsg {}, &[], "epoch_mock", None).unwrap();
        w.register("epoch_mock", &mock);
        let collector = w.add_account("collector");
        let lp = match w.add_cw20("lptoken", "LPT", 6) { A::Cw20(a) => a, _ => unreachable!() };
        let rwd = match w.add_cw20("reward", "RWD", 6) { A::Cw20(a) => a, _ => unreachable!() };
        let rwd2 = match w.add_cw20("rewardtwo", "RWDB", 6) { A::Cw20(a) => a, _ => unreachable!() };
        let fee = if fee_asset == "uwhale" { A::Native("uwhale".into()).asset(1000) } else { A::Cw20(rwd.clone()).asset(1000) };
        let factory = w.new_incentive_factory(&collector, &mock, fee);
        let lp_asset = if native_lp { w.add_denom("ulp") } else { A::Cw20(lp.clone()) };
        let incentive = w.create_incentive(&factory, &lp_asset.info(), "incentive").unwrap();
        let users: Vec<Addr> = USERS.iter().map(|u| w.add_account(u)).collect();
        for u in &users {
            w.fund(u, &lp_asset, 1u128 << 110);
            w.fund(u, &A::Cw20(rwd.clone()), 1u128 << 110);
            w.fund(u, &A::Cw20(rwd2.clone()), 1u128 << 110);
            w.mint_native(u, "uwhale", 1u128 << 110);
            w.mint_native(u, "uusdc", 1u128 << 110);
        }
        let owner = w.owner.clone();
        w.mint_native(&owner, "uwhale", 1u128 << 100);
        IncRun { w, factory, incentive, mock, collector, lp, lp_asset, rwd, rwd2, users, fee_asset: fee_asset.to_string() }
    }

    pub fn reward_asset(&self, name: &str) -> A {
        match name { "rwd" => A::Cw20(self.rwd.clone()), "rwd2" => A::Cw20(self.rwd2.clone()), "lp" => self.lp_asset.clone(), d => A::Native(d.to_string()) }
    }
    fn reward_name(&self, info: &AssetInfo) -> String {
        if *info == self.lp_asset.info() { return "lp".into(); }
        match info {
            AssetInfo::NativeToken { denom } => denom.clone(),
            AssetInfo::Token { contract_addr } => if *contract_addr == self.rwd.to_string() { "rwd".into() } else if *contract_addr == self.rwd2.to_string() { "rwd2".into() } else if *contract_addr == self.lp.to_string() { "lp".into() } else { contract_addr.clone() },
        }
    }

    pub fn epoch(&self) -> u64 {
        let r: white_whale_std::fee_distributor::EpochResponse = self.w.query(&self.mock, &white_whale_std::fee_distributor::QueryMsg::CurrentEpoch {}).unwrap();
        r.epoch.id.u64()
    }

    fn raw_u128(&self, key: &[u8]) -> u128 {
        match self.w.app.wrap().query_wasm_raw(&self.incentive, key.to_vec()) {
            Ok(Some(v)) => serde_json::from_slice::<Uint128>(&v).map(|x| x.u128()).unwrap_or(0),
            _ => 0,
        }
    }

    /// raw ADDRESS_WEIGHT_HISTORY of every user: Map<(&Addr, EpochId), Uint128> with namespace "address_weight_snapshot",
    /// as [{e, w}] ascending in e
    fn weight_history(&self) -> Value {
        let dump = self.w.app.dump_wasm_raw(&self.incentive);
        let mut out = serde_json::Map::new();
        for (i, u) in self.users.iter().enumerate() {
            let ns = b"address_weight_snapshot";
            let mut pre = vec![(ns.len() >> 8) as u8, ns.len() as u8];
            pre.extend_from_slice(ns);
            pre.push((u.as_bytes().len() >> 8) as u8);
            pre.push(u.as_bytes().len() as u8);
            pre.extend_from_slice(u.as_bytes());
            let mut rows: Vec<(u64, u128)> = vec![];
            for (k, v) in &dump {
                if k.len() == pre.len() + 8 && k.starts_with(&pre) {
                    let mut b = [0u8; 8];
                    b.copy_from_slice(&k[pre.len()..]);
                    let w = serde_json::from_slice::<Uint128>(v).map(|x| x.u128()).unwrap_or(0);
                    rows.push((u64::from_be_bytes(b), w));
                }
            }
            rows.sort();
            out.insert(USERS[i].into(), Value::Array(rows.iter().map(|(e, w)| json!({"e": e, "w": s(*w)})).collect()));
        }
        Value::Object(out)
    }

    /// flows as (id, creator, asset info, base amount, funded = latest expanded amount, claimed, start, end);
    /// parsed from JSON values (the typed response has integer-keyed maps)
    pub fn flows(&self) -> Vec<FlowView> {
        // The Flows query only shows the part of a flow's expansion history that lies inside an epoch window
        // (by default the 100 epochs from the flow's start: an expansion made before a future-dated flow starts, or more
        // than 100 epochs after its start, is not in the default answer).  The whole history is read window by window.
        let cur = self.epoch();
        let mut hists: std::collections::BTreeMap<u64, std::collections::BTreeMap<u64, (u128, u64)>> = Default::default();
        let mut ems: std::collections::BTreeMap<u64, std::collections::BTreeMap<u64, u128>> = Default::default();
        let mut rows: std::collections::BTreeMap<u64, Value> = Default::default();
        let mut w0 = 0u64;
        loop {
            let r: Value = self.w.query(&self.incentive, &QueryMsg::Flows { start_epoch: Some(w0), end_epoch: Some(w0 + 100) }).unwrap();
            if std::env::var("WWV_DEBUG_FLOWS").is_ok() { eprintln!("FLOWS[{w0}] {}", r); }
            for f in r.as_array().cloned().or_else(|| r["flows"].as_array().cloned()).unwrap_or_default() {
                let id = f["flow_id"].as_u64().unwrap();
                let h = hists.entry(id).or_default();
                if let Some(m) = f["asset_history"].as_object() {
                    for (k, v) in m { h.insert(k.parse::<u64>().unwrap_or(0), (v[0].as_str().unwrap().parse::<u128>().unwrap(), v[1].as_u64().unwrap_or(0))); }
                }
                let e = ems.entry(id).or_default();
                if let Some(m) = f["emitted_tokens"].as_object() {
                    for (k, v) in m { e.insert(k.parse::<u64>().unwrap_or(0), v.as_str().unwrap().parse::<u128>().unwrap()); }
                }
                rows.insert(id, f);
            }
            w0 += 101;
            if w0 > cur + 2 { break; }
        }
        let mut out = vec![];
        for (id, f) in rows {
            let info: AssetInfo = serde_json::from_value(f["flow_asset"]["info"].clone()).unwrap();
            let base: u128 = f["flow_asset"]["amount"].as_str().unwrap().parse().unwrap();
            let hist = &hists[&id];
            out.push(FlowView { flow_id: id, flow_creator: f["flow_creator"].as_str().unwrap().to_string(), info,
                base, funded: hist.iter().next_back().map(|x| x.1 .0).unwrap_or(base), hist: hist.clone(), emitted: ems[&id].clone(), label: f["flow_label"].as_str().unwrap_or("").to_string(), claimed: f["claimed_amount"].as_str().unwrap().parse().unwrap(),
                start_epoch: f["start_epoch"].as_u64().unwrap(), end_epoch: f["end_epoch"].as_u64().unwrap() });
        }
        out
    }

    /// every flow with its expansion history and emission ledger, in storage order (start epoch, id)
    pub fn flows_ledger(&self) -> Value {
        let mut fl = self.flows();
        fl.sort_by_key(|f| (f.start_epoch, f.flow_id));
        Value::Array(fl.iter().map(|f| json!({"id": f.flow_id, "asset": self.reward_name(&f.info), "base": s(f.base), "claimed": s(f.claimed),
            "start": f.start_epoch, "end": f.end_epoch,
            "hist": f.hist.iter().map(|(e, (a, en))| json!({"e": e, "amt": s(*a), "end": en})).collect::<Vec<_>>(),
            "em": f.emitted.iter().map(|(e, x)| json!({"e": e, "x": s(*x)})).collect::<Vec<_>>()})).collect())
    }

    pub fn rewards(&self, ui: usize) -> Value {
        match self.w.query::<RewardsResponse, _>(&self.incentive, &QueryMsg::Rewards { address: self.users[ui].to_string() }) {
            Ok(r) => {
                let mut m = serde_json::Map::new();
                for n in REWARDS { m.insert(n.to_string(), s(0)); }
                for a in r.rewards {
                    let n = self.reward_name(&a.info);
                    let cur: u128 = m.get(&n).and_then(|v| v.as_str()).and_then(|x| x.parse().ok()).unwrap_or(0);
                    m.insert(n, s(cur + a.amount.u128()));
                }
                json!({"res": "ok", "r": Value::Object(m)})
            }
            Err(_) => json!({"res": "rejected", "r": {"uwhale": "0", "uusdc": "0", "rwd": "0", "rwd2": "0", "lp": "0"}}),
        }
    }

    pub fn obs(&self) -> Value {
        let w = &self.w;
        let lpa = self.lp_asset.clone();
        let epoch = self.epoch();
        let mut open = serde_json::Map::new();
        let mut closed = serde_json::Map::new();
        let mut wlp = serde_json::Map::new();
        let mut rw = serde_json::Map::new();
        let mut aw = serde_json::Map::new();
        let mut share = serde_json::Map::new();
        let mut snap_exists = true;
        for (i, u) in self.users.iter().enumerate() {
            let p: PositionsResponse = w.query(&self.incentive, &QueryMsg::Positions { address: u.to_string() }).unwrap();
            let mut o = vec![];
            let mut ctotal: u128 = 0;
            for q in p.positions {
                match q {
                    QueryPosition::OpenPosition { amount, unbonding_duration, .. } => o.push(json!({"dur": unbonding_duration.to_string(), "amt": s(amount.u128())})),
                    QueryPosition::ClosedPosition { amount, .. } => ctotal += amount.u128(),
                }
            }
            open.insert(USERS[i].into(), Value::Array(o));
            closed.insert(USERS[i].into(), s(ctotal));
            wlp.insert(USERS[i].into(), s(w.balance(u, &lpa)));
            let mut m = serde_json::Map::new();
            for n in REWARDS { m.insert(n.to_string(), s(w.balance(u, &self.reward_asset(n)))); }
            rw.insert(USERS[i].into(), Value::Object(m));
            // raw ADDRESS_WEIGHT: Map<Addr, Uint128> with namespace "address_weight"
            let mut key = vec![0u8, 14u8];
            key.extend_from_slice(b"address_weight");
            key.extend_from_slice(u.as_bytes());
            aw.insert(USERS[i].into(), s(self.raw_u128(&key)));
            match w.query::<RewardsShareResponse, _>(&self.incentive, &QueryMsg::CurrentEpochRewardsShare { address: u.to_string() }) {
                Ok(r) => { share.insert(USERS[i].into(), json!(r.share.atomics().to_string())); }
                Err(_) => { snap_exists = false; share.insert(USERS[i].into(), s(0)); }
            }
        }
        let flows: Vec<Value> = self.flows().iter().map(|f| {
            json!({"id": f.flow_id, "creator": w.name_of(f.flow_creator.as_str()), "asset": self.reward_name(&f.info),
                   "funded": s(f.funded), "base": s(f.base), "claimed": s(f.claimed), "start": f.start_epoch, "end": f.end_epoch, "label": f.label})
        }).collect();
        let mut rbal = serde_json::Map::new();
        let mut col = serde_json::Map::new();
        for n in REWARDS {
            rbal.insert(n.to_string(), s(w.balance(&self.incentive, &self.reward_asset(n))));
            col.insert(n.to_string(), s(w.balance(&self.collector, &self.reward_asset(n))));
        }
        json!({"open": Value::Object(open), "closed": Value::Object(closed), "wlp": Value::Object(wlp), "rw": Value::Object(rw),
            "lpbal": s(w.balance(&self.incentive, &lpa)), "rbal": Value::Object(rbal), "col": Value::Object(col),
            "flows": flows, "gw": s(self.raw_u128(b"global_weight")), "aw": Value::Object(aw),
            "epoch": epoch, "snapshot": snap_exists, "share": Value::Object(share), "wh": self.weight_history()})
    }

    #[allow(clippy::too_many_arguments)]
    pub fn step(&mut self, rec: &mut Rec, run: u64, step: usize, op: &str, ui: usize, mut args: Value) {
        if (op == "expandflow" || op == "closeflow") && args.get("lbl").is_none() { args["lbl"] = json!(""); }
        let u = self.users[ui].clone();
        let mut pre = json!({});
        let inc = self.incentive.clone();
        let amt = |k: &str| -> u128 { args[k].as_str().and_then(|x| x.parse().ok()).unwrap_or(0) };
        let dpre;
        let rs = match op {
            "open" | "expand" => {
                let recv = args["recv"].as_str().unwrap();
                let a = amt("amt");
                let allow = amt("allow");
                // what is handed over with the message: a cw20 allowance, or coins of the native LP denom
                let funds: Vec<Coin> = match self.lp_asset.clone() {
                    A::Cw20(t) => {
                        self.w.set_allowance(&u, &t, &inc, allow);
                        // a receiver other than the caller may have a standing allowance of its own: it must stay untouched
                        if recv != USERS[ui] {
                            if let Some(x) = args["recv_allow"].as_str().and_then(|x| x.parse::<u128>().ok()) {
                                let rv = self.users[USERS.iter().position(|y| *y == recv).unwrap()].clone();
                                self.w.set_allowance(&rv, &t, &inc, x);
                            }
                        }
                        vec![]
                    }
                    A::Native(d) => if allow > 0 { vec![coin(allow, d)] } else { vec![] },
                };
                let dur: u64 = args["dur"].as_str().unwrap().parse().unwrap();
                let receiver = if recv == USERS[ui] { None } else { Some(self.users[USERS.iter().position(|x| *x == recv).unwrap()].to_string()) };
                dpre = self.w.digest();
                if op == "open" {
                    self.w.exec(&u, &inc, &ExecuteMsg::OpenPosition { amount: Uint128::new(a), unbonding_duration: dur, receiver }, &funds)
                } else {
                    self.w.exec(&u, &inc, &ExecuteMsg::ExpandPosition { amount: Uint128::new(a), unbonding_duration: dur, receiver }, &funds)
                }
            }
            "close" => { dpre = self.w.digest(); self.w.exec(&u, &inc, &ExecuteMsg::ClosePosition { unbonding_duration: args["dur"].as_str().unwrap().parse().unwrap() }, &[]) }
            "withdraw" => { dpre = self.w.digest(); self.w.exec(&u, &inc, &ExecuteMsg::Withdraw {}, &[]) }
            "snapshot" => { dpre = self.w.digest(); self.w.exec(&u, &inc, &ExecuteMsg::TakeGlobalWeightSnapshot {}, &[]) }
            "claim" => { pre = json!({"rewards": self.rewards(ui), "flows": self.flows_ledger()}); dpre = self.w.digest(); self.w.exec(&u, &inc, &ExecuteMsg::Claim {}, &[]) }
            "newepoch" => { dpre = self.w.digest(); self.w.advance(86_400_000_000_000, 1); self.w.exec(&u, &self.mock.clone(), &white_whale_std::fee_distributor::ExecuteMsg::NewEpoch {}, &[]) }
            "openflow" | "expandflow" => {
                let asset = args["asset"].as_str().unwrap();
                let a = amt("amt");
                let ra = self.reward_asset(asset);
                // funds: native coins as listed; cw20 allowances as listed
                let mut funds: Vec<Coin> = vec![];
                for f in args["funds"].as_array().unwrap() {
                    let d = f["d"].as_str().unwrap();
                    let x: u128 = f["amt"].as_str().unwrap().parse().unwrap();
                    if d == "rwd" { self.w.set_allowance(&u, &self.rwd.clone(), &inc, x); } else if d == "rwd2" { self.w.set_allowance(&u, &self.rwd2.clone(), &inc, x); }
                    else if d == "lp" { match self.lp_asset.clone() { A::Cw20(t) => self.w.set_allowance(&u, &t, &inc, x), A::Native(dn) => if x > 0 { funds.push(coin(x, dn)) } } }
                    else if x > 0 { funds.push(coin(x, d)); }
                }
                funds.sort_by(|a, b| a.denom.cmp(&b.denom));
                dpre = self.w.digest();
                if op == "openflow" {
                    let cur = self.epoch();
                    // start: 0 = unset (the current epoch); otherwise an offset, 100 + k = k epochs in the future, k < 100 = k epochs in the past
                    let start = match args["start"].as_u64().unwrap_or(0) { 0 => None, k if k >= 100 => Some(cur + (k - 100)), k => Some(cur.saturating_sub(k)) };
                    self.w.exec(&u, &inc, &ExecuteMsg::OpenFlow { start_epoch: start, end_epoch: Some(cur + args["len"].as_u64().unwrap_or(10)), curve: None,
                        flow_asset: ra.asset(a), flow_label: args["label"].as_str().filter(|x| !x.is_empty()).map(|x| x.to_string()) }, &funds)
                } else {
                    let cur = self.epoch();
                    if std::env::var("WWV_DEBUG_FLOWS").is_ok() { eprintln!("EXPAND id {:?} ext {:?} cur {} amount {} funds {:?}", args["id"], args["ext"], cur, a, funds); }
                    self.w.exec(&u, &inc, &ExecuteMsg::ExpandFlow { flow_identifier: ident(&args), end_epoch: match args["ext"].as_u64().unwrap_or(0) { 0 => None, k => Some(cur + k) }, flow_asset: ra.asset(a) }, &funds)
                }
            }
            "closeflow" => {
                let who = match args["by"].as_str().unwrap() { "owner" => self.w.owner.clone(), _ => u.clone() };
                dpre = self.w.digest();
                self.w.exec(&who, &inc, &ExecuteMsg::CloseFlow { flow_identifier: ident(&args) }, &[])
            }
            _ => panic!("unknown op {op}"),
        };
        let dpost = self.w.digest();
        // a claim pays every (flow, epoch) with a transfer of its own: the transfers in order, and what the flows' expansion
        // history and emission ledger say after the claim
        let mut out = json!({});
        if op == "claim" && rs.is_ok() {
            let pays: Vec<Value> = rs.transfers().iter().map(|(c, to, x)| {
                let lp_key = match &self.lp_asset { A::Cw20(t) => t.to_string(), A::Native(d) => d.clone() };
                let a = if *c == self.rwd.to_string() { "rwd".to_string() } else if *c == self.rwd2.to_string() { "rwd2".to_string() } else if *c == lp_key { "lp".to_string() } else { c.clone() };
                json!({"a": a, "to": self.w.name_of(to), "x": s(*x)})
            }).collect();
            out = json!({"pays": pays, "flows": self.flows_ledger()});
        } else if op == "claim" {
            let e = rs.err();
            out = json!({"why": if e.contains("Invalid reward") { "invalid-reward" } else if e.contains("ivide") { "divide-by-zero" } else { "other" }});
        }
        // the cw20 allowance left over is set-up noise: clear it so that later steps start clean
        let mut ev = serde_json::Map::new();
        ev.insert("run".into(), json!(run));
        ev.insert("step".into(), json!(step));
        ev.insert("ev".into(), json!(op));
        ev.insert("actor".into(), json!(USERS[ui]));
        ev.insert("args".into(), args);
        ev.insert("pre".into(), pre);
        ev.insert("res".into(), json!(rs.tag()));
        ev.insert("err".into(), jerr(&rs.err()));
        ev.insert("out".into(), out);
        ev.insert("dpre".into(), json!(dpre));
        ev.insert("dpost".into(), json!(dpost));
        ev.insert("obs".into(), self.obs());
        rec.emit(Value::Object(ev));
    }
}

fn pos_amount(r: &mut StdRng, scale: u128) -> u128 {
    match r.gen_range(0..6) { 0 => 1, 1 => 3, 2 => 7, 3 => gen::amount(r, 1000), _ => gen::amount(r, scale) }
}

pub fn run_random(rec: &mut Rec, seed: u64, run: u64, nops: usize) {
    let mut r = gen::rng(seed, run ^ 0x494e_4345);
    let fee_asset = if run % 2 == 0 { "uwhale" } else { "rwd" };
    // every fifth run stakes a native LP denom
    let mut p = IncRun::new_lp(fee_asset, run % 5 == 4);
    rec.emit(json!({"ev": "reset", "suite": "incentive", "run": run, "seed": seed.to_string(), "ops": nops,
        "cfg": {"fee_asset": fee_asset, "fee": "1000"}, "obs": p.obs()}));
    let scale = *gen::pick(&mut r, &[1_000u128, 1_000_000_000, 1u128 << 64, 1u128 << 100]);
    // every fourth run is a "claim campaign": two stakers, two flows of one asset (the second back-dated and short),
    // then epoch after epoch with both stakers claiming, so that flows are claimed through to their end
    // every eighth run instead follows a flow dated a few epochs ahead: it is expanded in several epochs before it starts,
    // runs, is claimed from and finally closed by its creator
    let future_campaign = run % 8 == 5;
    let campaign = run % 4 == 3;
    // and every eighth run starts with two creators using the same flow label: naming a flow by a shared label must
    // not let the creator of one of them expand into or close another one's
    let label_campaign = run % 8 == 1;
    // two short scripted openings taken from the counterexamples of spec/MC_Emission.tla (observations beyond the listed
    // properties): a flow that starts in an epoch one staker has already claimed, and a flow stretched in its last epoch
    let start_witness = run % 16 == 2;
    let stretch_witness = run % 16 == 10;
    // a flow longer than the 180-epoch expansion limit, claimed from and only then expanded for the first time (the
    // expansion re-bases it), then closed - in the staked LP asset itself on every other such run
    let long_campaign = run % 16 == 6;
    // a flow that is scheduled but has not started, beside a running one; a small staker (its rewards round down to
    // nothing, so it may close) claims, closes one of its two positions an epoch later and claims again an epoch after
    // that: the weight its claim writes back must be the one it has left
    let scheduled_campaign = run % 16 == 14;
    let camp_asset = *gen::pick(&mut r, &["uusdc", "rwd2", "lp"]);
    let camp_dur = DURS[0];
    for step in 0..nops {
        if scheduled_campaign && step < 17 {
            let fee: u128 = 1000;
            let fa = p.fee_asset.clone();
            let flow_funds = |asset: &str, a: u128| -> Value { if asset == fa { json!([{"d": asset, "amt": s(a)}]) } else { json!([{"d": fa, "amt": s(fee)}, {"d": asset, "amt": s(a)}]) } };
            let a = 20_000u128 + r.gen_range(0..5_000u128);
            let stake = |ui: usize, x: u128, d: u64| json!({"amt": s(x), "allow": s(x), "dur": d.to_string(), "recv": USERS[ui]});
            match step {
                0 => { let x = 1_000_000_000_000u128 + r.gen_range(0..1_000_000u128); p.step(rec, run, step, "open", 0, stake(0, x, camp_dur)) }
                1 => { let x = 1000 + r.gen_range(0..1000u128); p.step(rec, run, step, "open", 1, stake(1, x, camp_dur)) }
                2 => { let x = 1000 + r.gen_range(0..1000u128); p.step(rec, run, step, "open", 1, stake(1, x, DURS[1])) }
                3 => p.step(rec, run, step, "openflow", 2, json!({"asset": camp_asset, "amt": s(a), "funds": flow_funds(camp_asset, a), "len": 30, "start": 0})),
                4 => p.step(rec, run, step, "openflow", 2, json!({"asset": camp_asset, "amt": s(a + 11), "funds": flow_funds(camp_asset, a + 11), "len": 12, "start": 100 + r.gen_range(6..9u64)})),
                5 | 8 | 11 | 14 => p.step(rec, run, step, "newepoch", 0, json!({})),
                6 | 9 | 12 | 15 => p.step(rec, run, step, "snapshot", 2, json!({})),
                7 | 13 => p.step(rec, run, step, "claim", 1, json!({})),
                10 => p.step(rec, run, step, "close", 1, json!({"dur": DURS[1].to_string()})),
                _ => p.step(rec, run, step, "claim", 0, json!({})),
            }
            continue;
        }
        if (start_witness && step < 10) || (stretch_witness && step < 8) {
            let fee: u128 = 1000;
            let fa = p.fee_asset.clone();
            let flow_funds = |asset: &str, a: u128| -> Value { if asset == fa { json!([{"d": asset, "amt": s(a)}]) } else { json!([{"d": fa, "amt": s(fee)}, {"d": asset, "amt": s(a)}]) } };
            let a = 12_000u128 + r.gen_range(0..5_000u128);
            let stake = |ui: usize, x: u128| json!({"amt": s(x), "allow": s(x), "dur": camp_dur.to_string(), "recv": USERS[ui]});
            let id = p.flows().iter().map(|f| f.flow_id).max().unwrap_or(0);
            if start_witness {
                // user2 stakes alone; in the next epoch user1 claims (nothing yet), stakes as much, and a flow is opened that
                // starts in this very epoch; one epoch later user1 claims before user2
                match step {
                    0 => p.step(rec, run, step, "open", 1, stake(1, 1000)),
                    1 | 6 => p.step(rec, run, step, "newepoch", 0, json!({})),
                    2 | 7 => p.step(rec, run, step, "snapshot", 2, json!({})),
                    3 | 8 => p.step(rec, run, step, "claim", 0, json!({})),
                    4 => p.step(rec, run, step, "open", 0, stake(0, 1000)),
                    5 => p.step(rec, run, step, "openflow", 2, json!({"asset": camp_asset, "amt": s(a), "funds": flow_funds(camp_asset, a), "len": 2, "start": 0})),
                    _ => p.step(rec, run, step, "claim", 1, json!({})),
                }
            } else {
                match step {
                    0 => p.step(rec, run, step, "open", 0, stake(0, 1000)),
                    1 => p.step(rec, run, step, "openflow", 2, json!({"asset": camp_asset, "amt": s(a), "funds": flow_funds(camp_asset, a), "len": 2, "start": 0})),
                    2 | 3 => p.step(rec, run, step, "newepoch", 0, json!({})),
                    4 => p.step(rec, run, step, "expandflow", 1, json!({"asset": camp_asset, "amt": "1500", "id": id, "ext": 2, "funds": [{"d": camp_asset, "amt": "1500"}]})),
                    5 => p.step(rec, run, step, "snapshot", 2, json!({})),
                    6 => p.step(rec, run, step, "claim", 0, json!({})),
                    _ => p.step(rec, run, step, "newepoch", 0, json!({})),
                }
            }
            continue;
        }
        if long_campaign && step < 13 {
            let fee: u128 = 1000;
            let fa = p.fee_asset.clone();
            let asset = if run % 32 == 6 { "lp" } else { camp_asset };
            let flow_funds = |asset: &str, a: u128| -> Value { if asset == fa { json!([{"d": asset, "amt": s(a)}]) } else { json!([{"d": fa, "amt": s(fee)}, {"d": asset, "amt": s(a)}]) } };
            let a = 100_000u128 + r.gen_range(0..50_000u128);
            let id = p.flows().iter().map(|f| f.flow_id).max().unwrap_or(0);
            match step {
                0 | 1 => { let x = 1000 + r.gen_range(0..1000u128); p.step(rec, run, step, "open", step, json!({"amt": s(x), "allow": s(x), "dur": camp_dur.to_string(), "recv": USERS[step]})) }
                2 => p.step(rec, run, step, "openflow", 2, json!({"asset": asset, "amt": s(a), "funds": flow_funds(asset, a), "len": 185 + r.gen_range(0..20u64), "start": 0})),
                3 | 6 => p.step(rec, run, step, "newepoch", 0, json!({})),
                4 | 7 => p.step(rec, run, step, "snapshot", 2, json!({})),
                5 | 8 => p.step(rec, run, step, "claim", 0, json!({})),
                9 => p.step(rec, run, step, "claim", 1, json!({})),
                10 => p.step(rec, run, step, "expandflow", 1, json!({"asset": asset, "amt": "2500", "id": id, "ext": 0, "funds": [{"d": asset, "amt": "2500"}]})),
                11 => p.step(rec, run, step, "claim", 1, json!({})),
                _ => p.step(rec, run, step, "closeflow", 2, json!({"id": id, "by": "creator"})),
            }
            continue;
        }
        if label_campaign && step < 8 {
            let fee: u128 = 1000;
            let fa = p.fee_asset.clone();
            let flow_funds = |asset: &str, a: u128| -> Value { if asset == fa { json!([{"d": asset, "amt": s(a)}]) } else { json!([{"d": fa, "amt": s(fee)}, {"d": asset, "amt": s(a)}]) } };
            let a = 5_000u128 + r.gen_range(0..5_000u128);
            // which of the two creators comes first in storage order: the first opens a back-dated or a current flow
            let (first, second) = if r.gen_bool(0.5) { (2usize, 0usize) } else { (0, 2) };
            let (first, second) = if step == 0 { (first, second) } else {
                let fl = p.flows();
                let f0 = fl.iter().find(|f| f.label == "shared").map(|f| USERS.iter().position(|x| *x == p.w.name_of(f.flow_creator.as_str())).unwrap_or(0)).unwrap_or(first);
                (f0, if f0 == 0 { 2 } else { 0 })
            };
            match step {
                0 => p.step(rec, run, step, "openflow", first, json!({"asset": camp_asset, "amt": s(a), "funds": flow_funds(camp_asset, a), "label": "shared", "len": 12, "start": 0})),
                1 => p.step(rec, run, step, "openflow", second, json!({"asset": camp_asset, "amt": s(a + 3), "funds": flow_funds(camp_asset, a + 3), "label": "shared", "len": 9, "start": 0})),
                2 => p.step(rec, run, step, "closeflow", second, json!({"id": 0, "lbl": "shared", "by": "user"})),
                3 => p.step(rec, run, step, "closeflow", 1, json!({"id": 0, "lbl": "shared", "by": "user"})),
                4 => { let x = 1000 + r.gen_range(0..4000u128);
                       p.step(rec, run, step, "expandflow", second, json!({"asset": camp_asset, "amt": s(x), "id": 0, "lbl": "shared", "ext": 0, "funds": [{"d": camp_asset, "amt": s(x)}]})) }
                5 => p.step(rec, run, step, "closeflow", if r.gen_bool(0.5) { first } else { 1 }, json!({"id": 0, "lbl": "shared", "by": if r.gen_bool(0.5) { "owner" } else { "user" }})),
                // (by now `first` is the creator of whichever flow still carries the label)
                6 => p.step(rec, run, step, "closeflow", if r.gen_bool(0.3) { second } else { first }, json!({"id": 0, "lbl": "shared", "by": "user"})),
                _ => p.step(rec, run, step, "closeflow", first, json!({"id": 0, "lbl": "shared", "by": "user"})),
            }
            continue;
        }
        if future_campaign {
            let fee: u128 = 1000;
            let fa = p.fee_asset.clone();
            let flow_funds = |asset: &str, a: u128| -> Value { if asset == fa { json!([{"d": asset, "amt": s(a)}]) } else { json!([{"d": fa, "amt": s(fee)}, {"d": asset, "amt": s(a)}]) } };
            let a0 = 10_000u128 + r.gen_range(0..5_000u128);
            let id = p.flows().iter().map(|f| f.flow_id).max().unwrap_or(0);
            match step {
                0 => { let a = 1000 + r.gen_range(0..1000u128); p.step(rec, run, step, "open", 0, json!({"amt": s(a), "allow": s(a), "dur": camp_dur.to_string(), "recv": USERS[0]})); continue; }
                1 => { p.step(rec, run, step, "openflow", 2, json!({"asset": camp_asset, "amt": s(a0), "funds": flow_funds(camp_asset, a0), "len": 12, "start": 100 + r.gen_range(2..6u64)})); continue; }
                2 | 4 | 6 if id > 0 => { let x = 1000 + r.gen_range(0..4000u128);
                    p.step(rec, run, step, "expandflow", 1, json!({"asset": camp_asset, "amt": s(x), "id": id, "ext": 0, "funds": [{"d": camp_asset, "amt": s(x)}]})); continue; }
                3 | 5 | 7 => { p.step(rec, run, step, "newepoch", 0, json!({})); continue; }
                8..=30 if r.gen_range(0..10) < 8 => {
                    match (step - 8) % 3 { 0 => p.step(rec, run, step, "newepoch", 0, json!({})), 1 => p.step(rec, run, step, "snapshot", 2, json!({})), _ => p.step(rec, run, step, "claim", 0, json!({})) };
                    continue;
                }
                31 if id > 0 => { p.step(rec, run, step, "closeflow", 2, json!({"id": id, "by": "creator"})); continue; }
                _ => {}
            }
        }
        if campaign && step < nops {
            let fee: u128 = 1000;
            let fa = p.fee_asset.clone();
            let flow_funds = |asset: &str, a: u128| -> Value { if asset == fa { json!([{"d": asset, "amt": s(a)}]) } else { json!([{"d": fa, "amt": s(fee)}, {"d": asset, "amt": s(a)}]) } };
            let big = 100_000u128 + r.gen_range(0..50_000u128);
            match step {
                0 | 1 => { let a = 1000 + r.gen_range(0..1000u128); p.step(rec, run, step, "open", step, json!({"amt": s(a), "allow": s(a), "dur": camp_dur.to_string(), "recv": USERS[step]})); continue; }
                2 => { p.step(rec, run, step, "openflow", 2, json!({"asset": camp_asset, "amt": s(big), "funds": flow_funds(camp_asset, big), "len": 30, "start": 0})); continue; }
                3 | 4 => { p.step(rec, run, step, "newepoch", 0, json!({})); continue; }
                5 => { p.step(rec, run, step, "snapshot", 2, json!({})); continue; }
                6 => { p.step(rec, run, step, "claim", 0, json!({})); continue; }
                7 => { let len = r.gen_range(4..10u64); let back = r.gen_range(1..4u64);
                       p.step(rec, run, step, "openflow", 2, json!({"asset": camp_asset, "amt": s(big - 7), "funds": flow_funds(camp_asset, big - 7), "len": len, "start": back})); continue; }
                _ if r.gen_range(0..10) < 8 => {
                    // a claim needs the epoch's weight snapshot, which anybody may take
                    match (step - 8) % 4 { 0 => p.step(rec, run, step, "newepoch", 0, json!({})), 1 => p.step(rec, run, step, "snapshot", 2, json!({})), k => p.step(rec, run, step, "claim", k - 2, json!({})) };
                    continue;
                }
                _ => {}
            }
        }
        let ui = r.gen_range(0..3usize);
        let mut dur = *gen::pick(&mut r, &DURS);
        let roll = r.gen_range(0..100);
        if (18..=27).contains(&roll) || r.gen_bool(0.5) {
            // prefer a duration for which this user has an open position
            let pr: PositionsResponse = p.w.query(&p.incentive, &QueryMsg::Positions { address: p.users[ui].to_string() }).unwrap();
            let ds: Vec<u64> = pr.positions.iter().filter_map(|q| match q { QueryPosition::OpenPosition { unbonding_duration, .. } => Some(*unbonding_duration), _ => None }).collect();
            if !ds.is_empty() && r.gen_bool(0.8) { dur = ds[r.gen_range(0..ds.len())]; }
        }
        match roll {
            0..=17 => {
                let a = pos_amount(&mut r, scale);
                let allow = match r.gen_range(0..8) { 0 => a - 1, 1 => 0, 2 => a + 1, _ => a };
                let recv = if r.gen_bool(0.25) { USERS[r.gen_range(0..3usize)] } else { USERS[ui] };
                let op = if r.gen_bool(0.5) { "open" } else { "expand" };
                let recv_allow = if r.gen_bool(0.5) { s(a.saturating_mul(2)) } else { json!("none") };
                p.step(rec, run, step, op, ui, json!({"amt": s(a), "allow": s(allow), "dur": dur.to_string(), "recv": recv, "recv_allow": recv_allow}))
            }
            18..=27 => p.step(rec, run, step, "close", ui, json!({"dur": dur.to_string()})),
            28..=35 => p.step(rec, run, step, "withdraw", ui, json!({})),
            36..=47 => p.step(rec, run, step, "snapshot", ui, json!({})),
            48..=62 => p.step(rec, run, step, "claim", ui, json!({})),
            63..=74 => p.step(rec, run, step, "newepoch", ui, json!({})),
            75..=86 => {
                // open a flow: reward asset x funds variant
                let asset = *gen::pick(&mut r, &REWARDS);
                let a = match r.gen_range(0..5) { 0 => 1000, 1 => 2000, 2 => 999, _ => gen::amount(&mut r, scale.max(5000)) };
                let fee = 1000u128;
                let fa = p.fee_asset.clone();
                let variant = r.gen_range(0..6);
                let mut funds: Vec<Value> = vec![];
                if asset == fa {
                    // same asset: exact (amount incl. fee), fee only, less, more
                    let x = match variant { 0 => fee, 1 => a.saturating_sub(1), 2 => a + 1, _ => a };
                    funds.push(json!({"d": asset, "amt": s(x)}));
                } else {
                    let fx = match variant { 0 => fee - 1, 1 => fee + 5, _ => fee };
                    let ax = match variant { 2 => a.saturating_sub(1), 3 => a + 1, _ => a };
                    funds.push(json!({"d": fa, "amt": s(fx)}));
                    funds.push(json!({"d": asset, "amt": s(ax)}));
                }
                // labels are free text and not unique: two creators may use the same one
                let label = match r.gen_range(0..5) { 0 | 1 => "la", 2 => "lb", _ => "" };
                p.step(rec, run, step, "openflow", ui, json!({"asset": asset, "amt": s(a), "funds": funds, "label": label, "len": match r.gen_range(0..8) { 0 => 150u64, 1 => 181, 2 => 300, _ => r.gen_range(1..20u64) },
                    "start": match r.gen_range(0..10) { 0 => 1u64, 1 => 3, 2 => 8, 3 => 101, 4 => 105, _ => 0 }}))
            }
            87..=92 => {
                let fl = p.flows();
                if fl.is_empty() { p.step(rec, run, step, "snapshot", ui, json!({})); continue; }
                let f = &fl[r.gen_range(0..fl.len())];
                let asset = p.reward_name(&f.info);
                let a = gen::amount(&mut r, scale.max(5000));
                let x = match r.gen_range(0..5) { 0 => a.saturating_sub(1), 1 => a + 1, _ => a };
                // also stretch the flow (beyond the 180-epoch expansion limit the next expansion re-bases it)
                let ext: u64 = match r.gen_range(0..8) { 0 => 10, 1 => 100, 2 => 190, 3 => 400, _ => 0 };
                let lbl = if !f.label.is_empty() && r.gen_bool(0.4) { f.label.clone() } else { String::new() };
                p.step(rec, run, step, "expandflow", ui, json!({"asset": asset, "amt": s(a), "id": f.flow_id, "lbl": lbl, "ext": ext, "funds": [{"d": asset, "amt": s(x)}]}))
            }
            _ => {
                let fl = p.flows();
                if fl.is_empty() { p.step(rec, run, step, "newepoch", ui, json!({})); continue; }
                let f = &fl[r.gen_range(0..fl.len())];
                let creator = p.w.name_of(f.flow_creator.as_str());
                let (by, uix) = match r.gen_range(0..4) {
                    0 => ("owner", ui),
                    1 => ("user", ui),
                    _ => ("user", USERS.iter().position(|x| *x == creator).unwrap_or(ui)),
                };
                // by label: the caller is then often the creator of the LAST flow carrying the label, who need not own the first
                let lbl = if !f.label.is_empty() && r.gen_bool(0.5) { f.label.clone() } else { String::new() };
                let uix = if !lbl.is_empty() && by == "user" && r.gen_bool(0.6) {
                    let last = fl.iter().rev().find(|g| g.label == lbl).unwrap();
                    USERS.iter().position(|x| *x == p.w.name_of(last.flow_creator.as_str())).unwrap_or(uix)
                } else { uix };
                p.step(rec, run, step, "closeflow", uix, json!({"id": f.flow_id, "lbl": lbl, "by": by}))
            }
        }
    }
}

/// TLC schedules: positions / snapshot placement / claims over epochs (spec/MC_Incentive.tla)
pub fn run_schedule(rec: &mut Rec, seed: u64, run: u64, line: &str, table: usize) {
    let v: Value = serde_json::from_str(line).unwrap();
    let ops = v["ops"].as_array().unwrap();
    let mut p = IncRun::new("uwhale");
    rec.emit(json!({"ev": "reset", "suite": "incentive", "run": run, "seed": seed.to_string(), "table": table, "sched": v.clone(),
        "cfg": {"fee_asset": "uwhale", "fee": "1000"}, "obs": p.obs()}));
    // one funded flow so that claims pay something
    let flow_amt = [100_000u128, 1_000_000_007, (1u128 << 70) + 13][table % 3];
    p.step(rec, run, 0, "openflow", 2, json!({"asset": "uusdc", "amt": s(flow_amt), "funds": [{"d": "uwhale", "amt": "1000"}, {"d": "uusdc", "amt": s(flow_amt)}], "len": 12}));
    let amts = [[1u128, 2, 3], [5, 7, 1000], [1_000_003, 999_999, (1u128 << 64) + 1]][table % 3];
    let durs = [DURS[(table / 3) % 4], DURS[(table / 3 + 1) % 4]];
    for (i, o) in ops.iter().enumerate() {
        let op = o["op"].as_str().unwrap();
        let ui = match o["u"].as_str().unwrap() { "u1" => 0, "u2" => 1, _ => 2 };
        let a = amts[(o["a"].as_u64().unwrap_or(1) as usize).saturating_sub(1).min(2)];
        let d = durs[(o["d"].as_u64().unwrap_or(1) as usize).saturating_sub(1).min(1)];
        match op {
            "open" | "expand" => p.step(rec, run, i + 1, op, ui, json!({"amt": s(a), "allow": s(a), "dur": d.to_string(), "recv": USERS[ui]})),
            "close" => p.step(rec, run, i + 1, "close", ui, json!({"dur": d.to_string()})),
            "withdraw" | "snapshot" | "claim" | "newepoch" => p.step(rec, run, i + 1, op, ui, json!({})),
            _ => {}
        }
    }
}

pub fn main(seed: u64, first: u64, runs: u64, nops: usize, out: &str, sched: Option<&String>, table: Option<usize>) {
    let mut rec = Rec::create(out);
    if let Some(path) = sched {
        let f = std::io::BufReader::new(std::fs::File::open(path).expect("schedule file"));
        let lines: Vec<String> = f.lines().map(|l| l.unwrap()).filter(|l| !l.trim().is_empty()).collect();
        let mut run = first;
        for (i, line) in lines.iter().enumerate() {
            if runs > 0 && (i as u64) >= runs { break; }
            run_schedule(&mut rec, seed, run, line, table.unwrap_or((seed as usize) + i));
            run += 1;
        }
    } else {
        for run in first..first + runs { run_random(&mut rec, seed, run, nops); }
    }
    let n = rec.finish();
    eprintln!("incentive: {n} lines -> {out}");
}
