//! Vault suite: histories of deposit / withdraw / collect / fee changes / donations by three
//! users, interleaved with flash-loan transactions whose borrower is the scripted adversary
//! contract (direct loans, nested loans, loans through the vault router).
//! Serves C05, C06, C07 (vault), C14 (Share query), C17/C18 (vault toggles/fees through factory).
use cosmwasm_std::{coin, to_json_binary, Addr, Coin, CosmosMsg, Uint128, WasmMsg};
use rand::rngs::StdRng;
use rand::Rng;
use serde_json::{json, Value};

use white_whale_std::fee::{Fee, VaultFee};
use white_whale_std::vault_network::vault::{
    Config, Cw20HookMsg, ExecuteMsg, PaybackAmountResponse, ProtocolFeesResponse, QueryMsg,
    UpdateConfigParams,
};

use crate::adversary::{new_adversary, script_json, AdvExecute, Atom};
use crate::gen;
use crate::rec::Rec;
use crate::world::*;

pub const USERS: [&str; 3] = ["user1", "user2", "user3"];
const ONE: u128 = 1_000_000_000_000_000_000;

pub struct VaultRun {
    pub w: World,
    pub asset: A,
    pub vault: Addr,
    pub lp: Addr,
    pub factory: Addr,
    pub router: Addr,
    pub collector: Addr,
    pub adv: Addr,
    pub users: Vec<Addr>,
    /// the vault has been handed to the borrower contract (its owner can then act inside its own loans)
    pub adv_owns: bool,
}

pub fn vault_fee(p: u128, f: u128, b: u128) -> VaultFee {
    VaultFee {
        protocol_fee: Fee { share: dec_atomics(p) },
        flash_loan_fee: Fee { share: dec_atomics(f) },
        burn_fee: Fee { share: dec_atomics(b) },
    }
}

impl World {
    pub fn new_vault_factory(&mut self, collector: &Addr) -> Addr {
        let a = cw_multi_test::Executor::instantiate_contract(
            &mut self.app,
            self.codes.vault_factory,
            self.owner.clone(),
            &white_whale_std::vault_network::vault_factory::InstantiateMsg {
                owner: self.owner.to_string(),
                vault_id: self.codes.vault,
                token_id: self.codes.token,
                fee_collector_addr: collector.to_string(),
            },
            &[],
            "vault_factory",
            None,
        )
        .unwrap();
        self.register("vault_factory", &a);
        a
    }

    pub fn new_vault_router(&mut self, factory: &Addr) -> Addr {
        let a = cw_multi_test::Executor::instantiate_contract(
            &mut self.app,
            self.codes.vault_router,
            self.owner.clone(),
            &white_whale_std::vault_network::vault_router::InstantiateMsg {
                owner: self.owner.to_string(),
                vault_factory_addr: factory.to_string(),
            },
            &[],
            "vault_router",
            None,
        )
        .unwrap();
        self.register("vault_router", &a);
        a
    }

    /// creates a vault through the factory; returns (vault, lp token)
    pub fn create_vault(&mut self, factory: &Addr, asset: &A, fees: VaultFee, name: &str) -> Result<(Addr, Addr), String> {
        let r = self.exec(
            &self.owner.clone(),
            factory,
            &white_whale_std::vault_network::vault_factory::ExecuteMsg::CreateVault {
                asset_info: asset.info(),
                fees,
                token_factory_lp: false,
            },
            &[],
        );
        if !r.is_ok() {
            return Err(r.err());
        }
        let v: Option<String> = self
            .query(factory, &white_whale_std::vault_network::vault_factory::QueryMsg::Vault { asset_info: asset.info() })
            .map_err(|e| e.to_string())?;
        let vault = Addr::unchecked(v.ok_or("vault not registered")?);
        let cfg: Config = self.query(&vault, &QueryMsg::Config {}).map_err(|e| e.to_string())?;
        let lp = match cfg.lp_asset {
            white_whale_std::pool_network::asset::AssetInfo::Token { contract_addr } => Addr::unchecked(contract_addr),
            white_whale_std::pool_network::asset::AssetInfo::NativeToken { denom } => Addr::unchecked(denom),
        };
        self.register(name, &vault);
        self.register(&format!("{name}_lp"), &lp);
        self.tokens.push(lp.clone());
        Ok((vault, lp))
    }
}

impl VaultRun {
    pub fn new(native: bool, fees: [u128; 3], fund: u128) -> VaultRun {
        let mut w = World::new();
        let collector = w.new_fee_collector();
        let factory = w.new_vault_factory(&collector);
        let router = w.new_vault_router(&factory);
        let asset = if native { w.add_denom("uwhale") } else { w.add_cw20("tokena", "TKA", 6) };
        let (vault, lp) = w.create_vault(&factory, &asset, vault_fee(fees[0], fees[1], fees[2]), "vault").expect("create vault");
        let adv = new_adversary(&mut w, &vault, &asset.info(), &lp);
        let users: Vec<Addr> = USERS.iter().map(|u| w.add_account(u)).collect();
        for u in &users {
            w.fund(u, &asset, fund);
        }
        w.fund(&adv.clone(), &asset, fund);
        VaultRun { w, asset, vault, lp, factory, router, collector, adv, users, adv_owns: false }
    }

    /// the factory's owner hands the vault to the borrower contract
    pub fn hand_to_borrower(&mut self) {
        let owner = self.w.owner.clone();
        let rs = self.w.exec(&owner, &self.factory.clone(), &white_whale_std::vault_network::vault_factory::ExecuteMsg::UpdateVaultConfig {
            vault_addr: self.vault.to_string(),
            params: UpdateConfigParams { flash_loan_enabled: None, deposit_enabled: None, withdraw_enabled: None, new_owner: Some(self.adv.to_string()), new_vault_fees: None, new_fee_collector_addr: None } }, &[]);
        assert!(rs.is_ok(), "hand over: {}", rs.err());
        self.adv_owns = true;
    }

    /// an owner's update: through the factory, or - when the borrower contract owns the vault - forwarded by it
    pub fn owner_update(&mut self, sender: &Addr, by_owner: bool, params: UpdateConfigParams) -> Res {
        if self.adv_owns && by_owner {
            let msg: CosmosMsg = WasmMsg::Execute { contract_addr: self.vault.to_string(),
                msg: to_json_binary(&white_whale_std::vault_network::vault::ExecuteMsg::UpdateConfig(params)).unwrap(), funds: vec![] }.into();
            self.w.exec(sender, &self.adv.clone(), &AdvExecute::Forward { msg }, &[])
        } else if self.adv_owns {
            self.w.exec(sender, &self.vault.clone(), &white_whale_std::vault_network::vault::ExecuteMsg::UpdateConfig(params), &[])
        } else {
            self.w.exec(sender, &self.factory.clone(), &white_whale_std::vault_network::vault_factory::ExecuteMsg::UpdateVaultConfig { vault_addr: self.vault.to_string(), params }, &[])
        }
    }

    fn fee_q(&self, q: &QueryMsg) -> u128 {
        let r: ProtocolFeesResponse = self.w.query(&self.vault, q).unwrap();
        r.fees.amount.u128()
    }

    pub fn loans(&self) -> u128 {
        match self.w.app.wrap().query_wasm_raw(&self.vault, b"loan_counter".to_vec()) {
            Ok(Some(v)) => serde_json::from_slice::<u32>(&v).unwrap_or(9999) as u128,
            _ => 9999,
        }
    }

    pub fn obs(&self) -> Value {
        let w = &self.w;
        let lpa = A::Cw20(self.lp.clone());
        let mut lpm = serde_json::Map::new();
        lpm.insert("vault".into(), s(w.balance(&self.vault, &lpa)));
        lpm.insert("adv".into(), s(w.balance(&self.adv, &lpa)));
        let mut wm = serde_json::Map::new();
        for (i, u) in self.users.iter().enumerate() {
            lpm.insert(USERS[i].into(), s(w.balance(u, &lpa)));
            wm.insert(USERS[i].into(), s(w.balance(u, &self.asset)));
        }
        let cfg: Config = w.query(&self.vault, &QueryMsg::Config {}).unwrap();
        json!({
            "bal": s(w.balance(&self.vault, &self.asset)),
            "fee": s(self.fee_q(&QueryMsg::ProtocolFees { all_time: false })),
            "feeAll": s(self.fee_q(&QueryMsg::ProtocolFees { all_time: true })),
            "burned": s(self.fee_q(&QueryMsg::BurnedFees {})),
            "col": s(w.balance(&self.collector, &self.asset)),
            "circ": s(w.supply(&self.asset)),
            "S": s(w.cw20_supply(&self.lp)),
            "loans": s(self.loans()),
            "lp": Value::Object(lpm), "w": Value::Object(wm),
            "aw": s(w.balance(&self.adv, &self.asset)),
            "rb": s(w.balance(&self.router, &self.asset)),
            "fees": {"p": s(cfg.fees.protocol_fee.share.atomics().u128()),
                     "f": s(cfg.fees.flash_loan_fee.share.atomics().u128()),
                     "b": s(cfg.fees.burn_fee.share.atomics().u128())},
            "tog": {"d": cfg.deposit_enabled, "w": cfg.withdraw_enabled, "l": cfg.flash_loan_enabled},
        })
    }

    pub fn payback(&self, amt: u128) -> Option<PaybackAmountResponse> {
        self.w.query(&self.vault, &QueryMsg::GetPaybackAmount { amount: Uint128::new(amt) }).ok()
    }

    pub fn deposit(&mut self, who: &Addr, amt: u128) -> Res {
        let mut funds: Vec<Coin> = vec![];
        match &self.asset {
            A::Native(d) => {
                if amt > 0 {
                    funds.push(coin(amt, d.clone()))
                }
            }
            A::Cw20(t) => self.w.set_allowance(who, &t.clone(), &self.vault.clone(), amt),
        }
        self.w.exec(who, &self.vault.clone(), &ExecuteMsg::Deposit { amount: Uint128::new(amt) }, &funds)
    }
}

fn opt_share(p: &VaultRun, x: u128) -> Value {
    match p.w.query::<Uint128, _>(&p.vault, &QueryMsg::Share { amount: Uint128::new(x) }) {
        Ok(v) => json!({"res": "ok", "paid": s(v.u128())}),
        Err(_) => json!({"res": "rejected", "paid": "0"}),
    }
}

/// what GetPaybackAmount quotes for a loan of `amt` in the present state (the figure C06 calls "the quoted payback")
fn quote_json(p: &VaultRun, amt: u128) -> Value {
    match p.payback(amt) {
        Some(q) => json!({"res": "ok", "payback": s(q.payback_amount.u128()), "pf": s(q.protocol_fee.u128()), "ff": s(q.flash_loan_fee.u128()), "bf": s(q.burn_fee.u128())}),
        None => json!({"res": "none", "payback": "0", "pf": "0", "ff": "0", "bf": "0"}),
    }
}

fn random_vault_fees(r: &mut StdRng) -> [u128; 3] {
    match r.gen_range(0..6) {
        0 => [0, 0, 0],
        1 => [ONE / 100, ONE / 1000, 0],
        2 => [0, ONE / 500, 0],
        3 => [ONE / 100, 0, ONE / 200],
        _ => [gen::share_atomics(r, ONE / 3), gen::share_atomics(r, ONE / 3), gen::share_atomics(r, ONE / 3 - 1)],
    }
}

/// repayment amount for a loan `amt` given the quoted payback; `class` picks the classic mistakes
fn repay_amount(r: &mut StdRng, pb: &PaybackAmountResponse, amt: u128) -> u128 {
    let p = pb.payback_amount.u128();
    let (pf, ff, bf) = (pb.protocol_fee.u128(), pb.flash_loan_fee.u128(), pb.burn_fee.u128());
    match r.gen_range(0..12) {
        0..=3 => p,
        4 => p.saturating_sub(1),
        5 => p + 1,
        6 => p + gen::amount(r, (amt / 10).max(2)),
        7 => p - ff,
        8 => p - pf,
        9 => p - bf,
        10 => amt,
        _ => p.saturating_sub(gen::amount(r, (pf + ff + bf).max(1))),
    }
}

fn simple_script(r: &mut StdRng, p: &VaultRun, amt: u128) -> Vec<Atom> {
    let pb = match p.payback(amt) {
        Some(x) => x,
        None => return vec![Atom::Nothing {}],
    };
    let rep = Atom::Repay { x: Uint128::new(repay_amount(r, &pb, amt)) };
    let lpa = A::Cw20(p.lp.clone());
    let adv_sh = p.w.balance(&p.adv, &lpa);
    // a forged AfterTrade callback: old balance 0 or the real one, a loan amount from nothing to far beyond the vault
    let bal = p.w.balance(&p.vault, &p.asset);
    let fcb = Atom::Callback { old: Uint128::new(if r.gen_bool(0.5) { 0 } else { bal }), x: Uint128::new(match r.gen_range(0..4) { 0 => 0, 1 => amt, 2 => bal.saturating_mul(1000), _ => gen::amount(r, bal.max(2)) }) };
    // the owner's switches, flipped from inside the call-back (only an owner-borrower may; anybody else fails its transaction)
    let sw = |r: &mut StdRng| -> Option<bool> { match r.gen_range(0..3) { 0 => None, 1 => Some(true), _ => Some(false) } };
    let pause = Atom::Pause { d: sw(r), w: sw(r), l: sw(r) };
    let dep = Atom::Deposit { x: Uint128::new(gen::amount(r, amt.max(2000))) };
    match r.gen_range(0..20) {
        16 => vec![pause, rep],
        17 => vec![pause, dep, rep],
        18 => vec![Atom::Pause { d: None, w: None, l: Some(false) }, dep, rep],
        19 => vec![rep, pause],
        14 => vec![fcb, rep],
        15 => vec![rep, fcb],
        0 => vec![Atom::Fail {}],
        1 => vec![Atom::Nothing {}],
        2 => vec![],
        3 => vec![Atom::Collect {}, rep],
        4 => vec![Atom::Withdraw { x: Uint128::new(gen::amount(r, adv_sh.max(1))) }, rep],
        5 => vec![Atom::Deposit { x: Uint128::new(gen::amount(r, amt.max(2000))) }, rep],
        6 => vec![rep, Atom::Collect {}],
        7 => vec![rep.clone(), Atom::Withdraw { x: Uint128::new(gen::amount(r, adv_sh.max(1))) }],
        _ => vec![rep],
    }
}

fn loan_amount(r: &mut StdRng, bal: u128) -> u128 {
    match r.gen_range(0..9) {
        0 => 1,
        1 => bal,
        2 => bal + 1,
        3 => bal / 2,
        4 => 0,
        5 => gen::amount(r, bal.max(1)),
        _ => gen::log_uniform(r, 1, bal.max(1)),
    }
}

pub fn run_random(rec: &mut Rec, seed: u64, run: u64, nops: usize) {
    let mut r = gen::rng(seed, run ^ 0x5641_554c);
    let native = run % 2 == 0;
    let fees = random_vault_fees(&mut r);
    let fund: u128 = 1u128 << 120;
    let scales: [u128; 6] = [5_000, 1_000_000, 1_000_000_000_000, 1u128 << 64, 1_000_000_000_000_000_000_000_000, 1u128 << 100];
    let scale = *gen::pick(&mut r, &scales);
    let mut p = VaultRun::new(native, fees, fund);
    // in every sixth history the vault belongs to the borrower contract: an owner that takes loans from its own vault
    if run % 6 == 5 { p.hand_to_borrower(); }
    rec.emit(json!({
        "ev": "reset", "suite": "vault", "run": run, "seed": seed.to_string(), "ops": nops,
        "cfg": {"kind": p.asset.kind(), "adv_owns": p.adv_owns}, "obs": p.obs(),
    }));
    let mut last_minted: Option<(usize, u128)> = None;
    for step in 0..nops {
        let total = p.w.cw20_supply(&p.lp);
        let bal = p.w.balance(&p.vault, &p.asset);
        let op = if total == 0 { 0 } else { r.gen_range(0..100) };
        let ui = r.gen_range(0..3usize);
        let mut ev = serde_json::Map::new();
        ev.insert("run".into(), json!(run));
        ev.insert("step".into(), json!(step));
        if r.gen_bool(0.3) {
            p.w.advance(6_000_000_000, 1);
        }
        let lpa = A::Cw20(p.lp.clone());
        let (name, actor, args, pre, rs, dpre, dpost, out): (&str, String, Value, Value, Res, String, String, Value);
        match op {
            0..=17 => {
                let amt = if total == 0 {
                    match r.gen_range(0..5) { 0 => 1000, 1 => 1001, _ => gen::log_uniform(&mut r, scale / 8 + 1001, scale.max(2000)) }
                } else {
                    gen::amount(&mut r, (bal.max(1)).saturating_mul(2).min(1 << 118))
                };
                let by_adv = total != 0 && r.gen_bool(0.25);
                let before = p.w.balance(if by_adv { &p.adv } else { &p.users[ui] }, &lpa);
                if !by_adv {
                    // the exact allowance is part of the set-up, not of the observed transaction
                    if let A::Cw20(t) = p.asset.clone() {
                        let u = p.users[ui].clone();
                        p.w.set_allowance(&u, &t, &p.vault.clone(), amt);
                    }
                }
                dpre = p.w.digest();
                rs = if by_adv {
                    let u = p.users[ui].clone();
                    p.w.exec(&u, &p.adv.clone(), &AdvExecute::Run { script: vec![Atom::Deposit { x: Uint128::new(amt) }], target: p.vault.to_string() }, &[])
                } else {
                    let u = p.users[ui].clone();
                    p.deposit(&u, amt)
                };
                dpost = p.w.digest();
                let after = p.w.balance(if by_adv { &p.adv } else { &p.users[ui] }, &lpa);
                let minted = after.saturating_sub(before);
                last_minted = if rs.is_ok() && !by_adv { Some((ui, minted)) } else { None };
                name = "deposit";
                actor = if by_adv { "adv".into() } else { USERS[ui].into() };
                args = json!({"amt": s(amt)});
                pre = json!({});
                out = json!({"minted": s(minted)});
            }
            18..=33 => {
                let by_adv = r.gen_bool(0.2);
                let who = if by_adv { p.adv.clone() } else { p.users[ui].clone() };
                let have = p.w.balance(&who, &lpa);
                let sh = match (last_minted, r.gen_range(0..6)) {
                    (Some((lu, m)), 0..=2) if lu == ui && m > 0 && !by_adv => m,
                    (_, 3) => have,
                    (_, 4) => have / 2,
                    (_, 5) => have + 1,
                    _ => gen::amount(&mut r, have.max(1)),
                }
                .max(1);
                last_minted = None;
                pre = json!({"share": opt_share(&p, sh)});
                let wallet_before = p.w.balance(&who, &p.asset);
                dpre = p.w.digest();
                // one call in ten uses the direct Withdraw message (the entry point of token-factory LP denoms) with a coin of
                // the vault's own asset attached instead of handing in LP shares: with a cw20 LP token it must be refused
                let direct = !by_adv && r.gen_range(0..10) == 0;
                rs = if by_adv {
                    let u = p.users[ui].clone();
                    p.w.exec(&u, &p.adv.clone(), &AdvExecute::Run { script: vec![Atom::Withdraw { x: Uint128::new(sh) }], target: p.vault.to_string() }, &[])
                } else if direct && r.gen_bool(0.5) {
                    // a forged cw20 receipt: the caller sends the Receive message itself, naming itself as the sender of shares
                    p.w.exec(&who, &p.vault.clone(), &forged_receive(&who, sh, &Cw20HookMsg::Withdraw {}), &[])
                } else if direct {
                    let funds: Vec<cosmwasm_std::Coin> = match &p.asset { A::Native(d) => vec![coin(sh.min(p.w.balance(&who, &p.asset)).max(1), d.clone())], _ => vec![] };
                    p.w.exec(&who, &p.vault.clone(), &ExecuteMsg::Withdraw {}, &funds)
                } else {
                    p.w.cw20_send(&who, &p.lp.clone(), &p.vault.clone(), sh, &Cw20HookMsg::Withdraw {})
                };
                dpost = p.w.digest();
                let paid = p.w.balance(&who, &p.asset).saturating_sub(wallet_before);
                if direct {
                    name = "wdirect";
                    actor = USERS[ui].into();
                    args = json!({"shares": s(sh)});
                    out = json!({"paid": s(paid), "attr": rs.any_attr("asset_amount").unwrap_or("none".into())});
                } else {
                name = "withdraw";
                actor = if by_adv { "adv".into() } else { USERS[ui].into() };
                args = json!({"shares": s(sh)});
                out = json!({"paid": s(paid), "attr": rs.any_attr("asset_amount").unwrap_or("none".into())});
                }
            }
            34..=39 => {
                last_minted = None;
                let before = p.w.balance(&p.collector, &p.asset);
                dpre = p.w.digest();
                let u = p.users[ui].clone();
                rs = p.w.exec(&u, &p.vault.clone(), &ExecuteMsg::CollectProtocolFees {}, &[]);
                dpost = p.w.digest();
                name = "collect";
                actor = USERS[ui].into();
                args = json!({});
                pre = json!({});
                out = json!({"sent": s(p.w.balance(&p.collector, &p.asset).saturating_sub(before))});
            }
            // ------------------------------------------------------------ the three pause switches
            40..=45 if r.gen_bool(0.4) => {
                let sw = |r: &mut StdRng| -> Option<bool> { match r.gen_range(0..20) { 0..=7 => None, 8..=14 => Some(true), _ => Some(false) } };
                let (d, w, l) = (sw(&mut r), sw(&mut r), sw(&mut r));
                let by_owner = r.gen_bool(0.85);
                let sender = if by_owner { p.w.owner.clone() } else { p.users[ui].clone() };
                dpre = p.w.digest();
                rs = p.owner_update(&sender, by_owner, UpdateConfigParams { flash_loan_enabled: l, deposit_enabled: d, withdraw_enabled: w, new_owner: None, new_vault_fees: None, new_fee_collector_addr: None });
                dpost = p.w.digest();
                name = "settog";
                actor = if by_owner { "owner".into() } else { USERS[ui].into() };
                let j = |x: Option<bool>| match x { None => "none", Some(true) => "on", Some(false) => "off" };
                args = json!({"d": j(d), "w": j(w), "l": j(l)});
                pre = json!({});
                out = json!({});
            }
            40..=45 => {
                let f = match r.gen_range(0..6) {
                    0 => [ONE, 0, 0],
                    1 => [ONE / 2, ONE / 2, 0],
                    2 => [ONE / 2, ONE / 2 - 1, 0],
                    3 => [ONE / 3, ONE / 3, ONE / 3 + 1],
                    _ => random_vault_fees(&mut r),
                };
                let by_owner = r.gen_bool(0.85);
                let sender = if by_owner { p.w.owner.clone() } else { p.users[ui].clone() };
                dpre = p.w.digest();
                rs = p.owner_update(&sender, by_owner, UpdateConfigParams {
                        flash_loan_enabled: None, deposit_enabled: None, withdraw_enabled: None, new_owner: None,
                        new_vault_fees: Some(vault_fee(f[0], f[1], f[2])), new_fee_collector_addr: None });
                dpost = p.w.digest();
                name = "setfees";
                actor = if by_owner { "owner".into() } else { USERS[ui].into() };
                args = json!({"p": s(f[0]), "f": s(f[1]), "b": s(f[2])});
                pre = json!({});
                out = json!({});
            }
            46..=49 => {
                let x = gen::amount(&mut r, (bal / 10).max(5));
                let u = p.users[ui].clone();
                dpre = p.w.digest();
                rs = match p.asset.clone() {
                    A::Native(dn) => match cw_multi_test::Executor::send_tokens(&mut p.w.app, u.clone(), p.vault.clone(), &[coin(x, dn)]) {
                        Ok(r) => Res::Ok(r),
                        Err(e) => Res::Rejected(e.to_string()),
                    },
                    A::Cw20(t) => p.w.exec(&u, &t, &cw20::Cw20ExecuteMsg::Transfer { recipient: p.vault.to_string(), amount: Uint128::new(x) }, &[]),
                };
                dpost = p.w.digest();
                name = "donate";
                actor = USERS[ui].into();
                args = json!({"x": s(x)});
                pre = json!({});
                out = json!({});
            }
            // ------------------------------------------------------------ direct loan, adversary borrower
            50..=84 => {
                last_minted = None;
                let amt = loan_amount(&mut r, bal);
                let sub: Vec<Atom> = match r.gen_range(0..10) {
                    0..=2 => {
                        // nested loan, incl. the outer repayment short by the inner fees
                        let amt2 = loan_amount(&mut r, bal.saturating_sub(amt)).max(1);
                        let inner = simple_script(&mut r, &p, amt2);
                        let pb = p.payback(amt);
                        let pb2 = p.payback(amt2);
                        let outer_rep = match (pb, pb2) {
                            (Some(a), Some(b)) => match r.gen_range(0..5) {
                                0 | 1 => a.payback_amount.u128(),
                                2 => a.payback_amount.u128().saturating_sub(b.protocol_fee.u128() + b.flash_loan_fee.u128()),
                                3 => a.payback_amount.u128().saturating_sub(1),
                                _ => repay_amount(&mut r, &a, amt),
                            },
                            _ => amt,
                        };
                        // after the inner loan has completed: repay, or re-enter the vault first (a deposit made now is
                        // still inside the outer loan), or let a deposit stand in for the repayment
                        let rep = Atom::Repay { x: Uint128::new(outer_rep.max(1)) };
                        let dep = Atom::Deposit { x: Uint128::new(match r.gen_range(0..3) { 0 => outer_rep.max(1001), 1 => gen::amount(&mut r, amt.max(2000)), _ => outer_rep.saturating_add(gen::amount(&mut r, 5000)).max(1001) }) };
                        let lpa2 = A::Cw20(p.lp.clone());
                        let adv_sh = p.w.balance(&p.adv, &lpa2);
                        // sibling loans: two loans taken one after the other in the same call-back, each repaid exactly; the
                        // outer repayment is exact, or short by the fees the first (or the second) sibling left in the vault
                        let amt3 = loan_amount(&mut r, bal.saturating_sub(amt)).max(1);
                        let exact = |p: &VaultRun, x: u128| -> Vec<Atom> { match p.payback(x) { Some(q) => vec![Atom::Repay { x: q.payback_amount }], None => vec![Atom::Nothing {}] } };
                        let kept = |p: &VaultRun, x: u128| -> u128 { p.payback(x).map(|q| q.protocol_fee.u128() + q.flash_loan_fee.u128()).unwrap_or(0) };
                        let full = p.payback(amt).map(|q| q.payback_amount.u128()).unwrap_or(amt);
                        let sib_rep = Atom::Repay { x: Uint128::new(match r.gen_range(0..5) { 0 | 1 => full, 2 => full.saturating_sub(kept(&p, amt2)), 3 => full.saturating_sub(kept(&p, amt3)), _ => full.saturating_sub(1) }.max(1)) };
                        match r.gen_range(0..12) {
                            // a nested loan repaid exactly, a fee collection (anybody may ask for one), then the outer repayment
                            // exact or short by what the nested loan left in the vault
                            10 | 11 => vec![Atom::Loan { x: Uint128::new(amt2), sub: exact(&p, amt2) }, Atom::Collect {}, sib_rep],
                            8 => vec![Atom::Loan { x: Uint128::new(amt2), sub: exact(&p, amt2) }, Atom::Loan { x: Uint128::new(amt3), sub: exact(&p, amt3) }, sib_rep],
                            // ... and a chain three deep
                            9 => vec![Atom::Loan { x: Uint128::new(amt2), sub: vec![Atom::Loan { x: Uint128::new(amt3), sub: exact(&p, amt3) }, Atom::Repay { x: Uint128::new(p.payback(amt2).map(|q| q.payback_amount.u128()).unwrap_or(amt2)) }] }, sib_rep],
                            0 => vec![Atom::Loan { x: Uint128::new(amt2), sub: inner }, dep],
                            1 => vec![Atom::Loan { x: Uint128::new(amt2), sub: inner }, dep, rep],
                            2 => vec![Atom::Loan { x: Uint128::new(amt2), sub: inner }, Atom::Withdraw { x: Uint128::new(gen::amount(&mut r, adv_sh.max(1))) }, rep],
                            3 => vec![Atom::Loan { x: Uint128::new(amt2), sub: inner }, Atom::Collect {}, rep],
                            _ => vec![Atom::Loan { x: Uint128::new(amt2), sub: inner }, rep],
                        }
                    }
                    _ => simple_script(&mut r, &p, amt),
                };
                let script = vec![Atom::Loan { x: Uint128::new(amt), sub }];
                pre = json!({"quote": quote_json(&p, amt)});
                dpre = p.w.digest();
                let u = p.users[ui].clone();
                rs = p.w.exec(&u, &p.adv.clone(), &AdvExecute::Run { script: script.clone(), target: p.vault.to_string() }, &[]);
                dpost = p.w.digest();
                name = "loan";
                actor = USERS[ui].into();
                args = json!({"script": script_json(&script)});
                out = json!({});
            }
            // ------------------------------------------------------------ loan through the vault router
            _ => {
                last_minted = None;
                let amt = loan_amount(&mut r, bal);
                // through the router the borrower hands over the fees only (the router still holds the loan): half of the
                // scripts are a single repayment around that figure
                let sub = match (p.payback(amt), r.gen_bool(0.5)) {
                    (Some(q), true) => {
                        let fees = q.payback_amount.u128().saturating_sub(amt);
                        let x = match r.gen_range(0..8) { 0 => fees.saturating_sub(1), 1 => fees + 1, 2 => fees + gen::amount(&mut r, (amt / 10).max(2)), 3 => q.payback_amount.u128(),
                            4 => fees.saturating_sub(q.burn_fee.u128()), 5 => fees.saturating_sub(q.protocol_fee.u128()), _ => fees };
                        vec![Atom::Repay { x: Uint128::new(x) }]
                    }
                    _ => simple_script(&mut r, &p, amt),
                };
                let payload: Vec<CosmosMsg> = vec![WasmMsg::Execute {
                    contract_addr: p.adv.to_string(),
                    msg: to_json_binary(&AdvExecute::Run { script: sub.clone(), target: p.router.to_string() }).unwrap(),
                    funds: vec![],
                }
                .into()];
                pre = json!({"quote": quote_json(&p, amt)});
                dpre = p.w.digest();
                let u = p.users[ui].clone();
                // one router loan in six over a native vault comes with coins of the vault's asset attached to the message: they
                // are the initiator's and must come back with the remaining proceeds
                let att: u128 = match &p.asset { A::Native(_) if r.gen_range(0..6) == 0 => match r.gen_range(0..3) { 0 => 1, 1 => 100, _ => gen::amount(&mut r, amt.max(2)) }, _ => 0 };
                let funds: Vec<Coin> = match &p.asset { A::Native(d) if att > 0 => vec![coin(att, d.as_str())], _ => vec![] };
                rs = p.w.exec(
                    &u,
                    &p.router.clone(),
                    &white_whale_std::vault_network::vault_router::ExecuteMsg::FlashLoan {
                        assets: vec![p.asset.asset(amt)],
                        msgs: payload,
                    },
                    &funds,
                );
                dpost = p.w.digest();
                name = "rloan";
                actor = USERS[ui].into();
                args = json!({"amt": s(amt), "script": script_json(&sub), "att": s(att)});
                out = json!({});
            }
        }
        ev.insert("ev".into(), json!(name));
        ev.insert("actor".into(), json!(actor));
        ev.insert("args".into(), args);
        ev.insert("pre".into(), pre);
        ev.insert("res".into(), json!(rs.tag()));
        ev.insert("err".into(), jerr(&rs.err()));
        ev.insert("disabled".into(), json!(rs.err().contains("are not enabled")));
        ev.insert("out".into(), out);
        ev.insert("dpre".into(), json!(dpre));
        ev.insert("dpost".into(), json!(dpost));
        ev.insert("obs".into(), p.obs());
        rec.emit(Value::Object(ev));
    }
}

pub fn main(seed: u64, first: u64, runs: u64, nops: usize, out: &str) {
    let mut rec = Rec::create(out);
    for run in first..first + runs {
        run_random(&mut rec, seed, run, nops);
    }
    let n = rec.finish();
    eprintln!("vault: {runs} runs, {n} lines -> {out}");
}
