//! Configuration suite (C18): every write path of every bounded parameter with values on, just inside
//! and just outside each bound, enumerated by TLC (spec/MC_Config.tla) at model scale and mapped to
//! 18-decimal granularity here.
use std::io::BufRead;

use cosmwasm_std::{Addr, Decimal, Uint64};
use serde_json::{json, Value};

use white_whale_std::epoch_manager::epoch_manager::EpochConfig;
use white_whale_std::pool_network::asset::{AssetInfo, PairType};

use crate::full::*;
use crate::hub::DAY;
use crate::rec::Rec;
use crate::suites::vault::vault_fee;
use crate::world::*;

/// model share (DEC = 100) -> 18-decimal atomics
fn share(m: u64) -> u128 {
    match m {
        0 => 0,
        33 => ONE / 3,
        34 => ONE / 3 + 1,
        50 => ONE / 2,
        99 => ONE - 1,
        100 => ONE,
        101 => ONE + 1,
        x => (x as u128) * (ONE / 100),
    }
}

fn fees_json(p: u128, x: u128, b: u128, third: &str) -> Value {
    json!({"p": s(p), third: s(x), "b": s(b)})
}

fn pair_cfg(f: &Full, pair: &Addr) -> Value {
    let c: white_whale_std::pool_network::pair::ConfigResponse = f.w.query(pair, &white_whale_std::pool_network::pair::QueryMsg::Config {}).unwrap();
    fees_json(c.pool_fees.protocol_fee.share.atomics().u128(), c.pool_fees.swap_fee.share.atomics().u128(), c.pool_fees.burn_fee.share.atomics().u128(), "s")
}
fn trio_cfg(f: &Full, trio: &Addr) -> (Value, u64, u64) {
    let c: white_whale_std::pool_network::trio::ConfigResponse = f.w.query(trio, &white_whale_std::pool_network::trio::QueryMsg::Config {}).unwrap();
    (fees_json(c.pool_fees.protocol_fee.share.atomics().u128(), c.pool_fees.swap_fee.share.atomics().u128(), c.pool_fees.burn_fee.share.atomics().u128(), "s"), c.initial_amp, c.future_amp)
}
fn vault_cfg(f: &Full, vault: &Addr) -> Value {
    let c: white_whale_std::vault_network::vault::Config = f.w.query(vault, &white_whale_std::vault_network::vault::QueryMsg::Config {}).unwrap();
    fees_json(c.fees.protocol_fee.share.atomics().u128(), c.fees.flash_loan_fee.share.atomics().u128(), c.fees.burn_fee.share.atomics().u128(), "f")
}

fn obs(f: &Full, created: Value) -> Value {
    let (tf, ai, af) = trio_cfg(f, &f.trio);
    let d: white_whale_std::fee_distributor::Config = f.w.query(&f.hub.distributor, &white_whale_std::fee_distributor::QueryMsg::Config {}).unwrap();
    let l: white_whale_std::whale_lair::Config = f.w.query(&f.hub.lair, &white_whale_std::whale_lair::QueryMsg::Config {}).unwrap();
    let c: white_whale_std::fee_collector::Config = f.w.query(&f.hub.collector, &white_whale_std::fee_collector::QueryMsg::Config {}).unwrap();
    json!({"pair1": pair_cfg(f, &f.pair1), "pair2": pair_cfg(f, &f.pair2), "trio": tf,
        "amp": {"init": ai.to_string(), "future": af.to_string()}, "vault": vault_cfg(f, &f.vault),
        "grace": d.grace_period.to_string(), "dur": d.epoch_config.duration.to_string(),
        "growth": s(l.growth_rate.atomics().u128()), "assets": l.bonding_assets.len().to_string(),
        "take": s(c.take_rate.atomics().u128()), "created": created})
}

fn none() -> Value {
    json!({"kind": "none"})
}

/// performs one write; returns (result, created-descriptor, args for the trace)
fn write(f: &mut Full, o: &Value) -> (Res, Value, Value) {
    let w = o["w"].as_str().unwrap();
    let (mp, mx, mb, mv) = (o["p"].as_u64().unwrap(), o["x"].as_u64().unwrap(), o["b"].as_u64().unwrap(), o["v"].as_u64().unwrap());
    let (p, x, b) = (share(mp), share(mx), share(mb));
    let owner = f.owner.clone();
    let pf = pool_fee(dec_atomics(p), dec_atomics(x), dec_atomics(b));
    let tf = trio_fee(p, x, b);
    let vf = vault_fee(p, x, b);
    let ok_fee = pool_fee(dec_atomics(ONE / 1000), dec_atomics(ONE / 500), dec_atomics(0));
    let ok_tfee = trio_fee(ONE / 1000, ONE / 500, 0);
    use white_whale_std::pool_network::factory::ExecuteMsg as PF;
    use white_whale_std::vault_network::vault_factory::ExecuteMsg as VF;
    let fee_args = |third: &str| json!({"w": w, "family": "fee", "fee": fees_json(p, x, b, third), "third": third});
    match w {
        "pair.factory_update" => (f.w.exec(&owner, &f.hub.pool_factory.clone(), &PF::UpdatePairConfig { pair_addr: f.pair1.to_string(), owner: None, fee_collector_addr: None, pool_fees: Some(pf), feature_toggle: None }, &[]), none(), fee_args("s")),
        "pair.direct_update" => (f.w.exec(&f.hub.pool_factory.clone(), &f.pair1.clone(), &white_whale_std::pool_network::pair::ExecuteMsg::UpdateConfig { owner: None, fee_collector_addr: None, pool_fees: Some(pf), feature_toggle: None }, &[]), none(), fee_args("s")),
        "pair.factory_create" => {
            let r = f.w.create_pair(&f.hub.pool_factory.clone(), [&f.atom.clone(), &f.tka.clone()], pf, PairType::ConstantProduct, "newpair");
            match r { Ok((pair, _)) => { let c = pair_cfg(f, &pair); (Res::Ok(Default::default()), json!({"kind": "pair", "fee": c}), fee_args("s")) } Err(e) => (Res::Rejected(e), none(), fee_args("s")) }
        }
        "pair.instantiate" => {
            let r = cw_multi_test::Executor::instantiate_contract(&mut f.w.app, f.w.codes.pair, owner.clone(), &white_whale_std::pool_network::pair::InstantiateMsg {
                asset_infos: [f.atom.info(), f.tka.info()], token_code_id: f.w.codes.token, asset_decimals: [6, 6], pool_fees: pf,
                fee_collector_addr: f.hub.collector.to_string(), pair_type: PairType::ConstantProduct, token_factory_lp: false }, &[], "rawpair", None);
            match r { Ok(a) => { f.w.register("rawpair", &a); let c = pair_cfg(f, &a); (Res::Ok(Default::default()), json!({"kind": "pair", "fee": c}), fee_args("s")) } Err(e) => (Res::Rejected(e.to_string()), none(), fee_args("s")) }
        }
        "trio.factory_update" => (f.w.exec(&owner, &f.hub.pool_factory.clone(), &PF::UpdateTrioConfig { trio_addr: f.trio.to_string(), owner: None, fee_collector_addr: None, pool_fees: Some(tf), feature_toggle: None, amp_factor: None }, &[]), none(), fee_args("s")),
        "trio.direct_update" => (f.w.exec(&f.hub.pool_factory.clone(), &f.trio.clone(), &white_whale_std::pool_network::trio::ExecuteMsg::UpdateConfig { owner: None, fee_collector_addr: None, pool_fees: Some(tf), feature_toggle: None, amp_factor: None }, &[]), none(), fee_args("s")),
        "trio.factory_create" | "trio.factory_create_amp" => {
            let (fee, amp, args) = if w == "trio.factory_create" { (tf, 100u64, fee_args("s")) } else { let a = amp_of(mv); (ok_tfee, a, json!({"w": w, "family": "amp", "v": a.to_string()})) };
            let r = f.w.create_trio(&f.hub.pool_factory.clone(), [&f.whale.clone(), &f.atom.clone(), &f.tka.clone()], fee, amp, "newtrio");
            match r { Ok((t, _)) => { let (c, ai, _) = trio_cfg(f, &t); (Res::Ok(Default::default()), json!({"kind": "trio", "fee": c, "amp": ai.to_string()}), args) } Err(e) => (Res::Rejected(e), none(), args) }
        }
        "trio.instantiate" | "trio.instantiate_amp" => {
            let (fee, amp, args) = if w == "trio.instantiate" { (tf, 100u64, fee_args("s")) } else { let a = amp_of(mv); (ok_tfee, a, json!({"w": w, "family": "amp", "v": a.to_string()})) };
            let r = cw_multi_test::Executor::instantiate_contract(&mut f.w.app, f.w.codes.trio, owner.clone(), &white_whale_std::pool_network::trio::InstantiateMsg {
                asset_infos: [f.whale.info(), f.atom.info(), f.tka.info()], token_code_id: f.w.codes.token, asset_decimals: [6, 6, 6], pool_fees: fee,
                fee_collector_addr: f.hub.collector.to_string(), amp_factor: amp, token_factory_lp: false }, &[], "rawtrio", None);
            match r { Ok(a) => { f.w.register("rawtrio", &a); let (c, ai, _) = trio_cfg(f, &a); (Res::Ok(Default::default()), json!({"kind": "trio", "fee": c, "amp": ai.to_string()}), args) } Err(e) => (Res::Rejected(e.to_string()), none(), args) }
        }
        "vault.factory_update" => (f.w.exec(&owner, &f.hub.vault_factory.clone(), &VF::UpdateVaultConfig { vault_addr: f.vault.to_string(), params: white_whale_std::vault_network::vault::UpdateConfigParams {
            flash_loan_enabled: None, deposit_enabled: None, withdraw_enabled: None, new_owner: None, new_vault_fees: Some(vf), new_fee_collector_addr: None } }, &[]), none(), fee_args("f")),
        "vault.direct_update" => (f.w.exec(&f.hub.vault_factory.clone(), &f.vault.clone(), &white_whale_std::vault_network::vault::ExecuteMsg::UpdateConfig(white_whale_std::vault_network::vault::UpdateConfigParams {
            flash_loan_enabled: None, deposit_enabled: None, withdraw_enabled: None, new_owner: None, new_vault_fees: Some(vf), new_fee_collector_addr: None }), &[]), none(), fee_args("f")),
        "vault.factory_create" => {
            let r = f.w.create_vault(&f.hub.vault_factory.clone(), &f.usdc.clone(), vf, "newvault");
            match r { Ok((v, _)) => { let c = vault_cfg(f, &v); (Res::Ok(Default::default()), json!({"kind": "vault", "fee": c}), fee_args("f")) } Err(e) => (Res::Rejected(e), none(), fee_args("f")) }
        }
        "vault.factory_create_tf" => {
            let tf = A::Native("factory/creator/utf".to_string());
            let r = f.w.create_vault(&f.hub.vault_factory.clone(), &tf, vf, "newvault_tf");
            match r { Ok((v, _)) => { let c = vault_cfg(f, &v); (Res::Ok(Default::default()), json!({"kind": "vault", "fee": c}), fee_args("f")) } Err(e) => (Res::Rejected(e), none(), fee_args("f")) }
        }
        "vault.instantiate_tf" => {
            let tf = A::Native("factory/creator/utf".to_string());
            let r = cw_multi_test::Executor::instantiate_contract(&mut f.w.app, f.w.codes.vault, owner.clone(), &white_whale_std::vault_network::vault::InstantiateMsg {
                owner: owner.to_string(), asset_info: tf.info(), token_id: f.w.codes.token, vault_fees: vf, fee_collector_addr: f.hub.collector.to_string(), token_factory_lp: false }, &[], "rawvault_tf", None);
            match r { Ok(a) => { f.w.register("rawvault_tf", &a); let c = vault_cfg(f, &a); (Res::Ok(Default::default()), json!({"kind": "vault", "fee": c}), fee_args("f")) } Err(e) => (Res::Rejected(e.to_string()), none(), fee_args("f")) }
        }
        "vault.instantiate" => {
            let r = cw_multi_test::Executor::instantiate_contract(&mut f.w.app, f.w.codes.vault, owner.clone(), &white_whale_std::vault_network::vault::InstantiateMsg {
                owner: owner.to_string(), asset_info: f.usdc.info(), token_id: f.w.codes.token, vault_fees: vf, fee_collector_addr: f.hub.collector.to_string(), token_factory_lp: false }, &[], "rawvault", None);
            match r { Ok(a) => { f.w.register("rawvault", &a); let c = vault_cfg(f, &a); (Res::Ok(Default::default()), json!({"kind": "vault", "fee": c}), fee_args("f")) } Err(e) => (Res::Rejected(e.to_string()), none(), fee_args("f")) }
        }
        "distributor.update+2x" | "distributor.update+30x" => {
            // the grace period together with an epoch 2 / 30 times as long, in one message
            let g = grace_of(mv);
            let k: u64 = if w.ends_with("+2x") { 2 } else { 30 };
            let cfg: white_whale_std::fee_distributor::Config = f.w.query(&f.hub.distributor, &white_whale_std::fee_distributor::QueryMsg::Config {}).unwrap();
            (f.w.exec(&owner, &f.hub.distributor.clone(), &white_whale_std::fee_distributor::ExecuteMsg::UpdateConfig { owner: None, bonding_contract_addr: None, fee_collector_addr: None,
                grace_period: Some(Uint64::new(g)), distribution_asset: None,
                epoch_config: Some(EpochConfig { duration: Uint64::new(cfg.epoch_config.duration.u64().saturating_mul(k)), genesis_epoch: cfg.epoch_config.genesis_epoch }) }, &[]),
             none(), json!({"w": w, "family": "grace_update", "v": g.to_string()})) }
        "distributor.update" => { let g = grace_of(mv); (f.w.exec(&owner, &f.hub.distributor.clone(), &white_whale_std::fee_distributor::ExecuteMsg::UpdateConfig { owner: None, bonding_contract_addr: None, fee_collector_addr: None,
            grace_period: Some(Uint64::new(g)), distribution_asset: None, epoch_config: None }, &[]), none(), json!({"w": w, "family": "grace_update", "v": g.to_string()})) }
        "distributor.update_duration" => { let d = dur_of(mv); let cfg: white_whale_std::fee_distributor::Config = f.w.query(&f.hub.distributor, &white_whale_std::fee_distributor::QueryMsg::Config {}).unwrap();
            (f.w.exec(&owner, &f.hub.distributor.clone(), &white_whale_std::fee_distributor::ExecuteMsg::UpdateConfig { owner: None, bonding_contract_addr: None, fee_collector_addr: None, grace_period: None, distribution_asset: None,
                epoch_config: Some(EpochConfig { duration: Uint64::new(d), genesis_epoch: cfg.epoch_config.genesis_epoch }) }, &[]), none(), json!({"w": w, "family": "dur", "v": d.to_string()})) }
        "distributor.instantiate" | "distributor.instantiate_duration" => {
            let (g, d) = if w == "distributor.instantiate" { (grace_of(mv), DAY) } else { (3, dur_of(mv)) };
            let args = if w == "distributor.instantiate" { json!({"w": w, "family": "grace", "v": g.to_string()}) } else { json!({"w": w, "family": "dur", "v": d.to_string()}) };
            let now = f.w.now_nanos();
            let r = cw_multi_test::Executor::instantiate_contract(&mut f.w.app, f.w.codes.fee_distributor, owner.clone(), &white_whale_std::fee_distributor::InstantiateMsg {
                bonding_contract_addr: f.hub.lair.to_string(), fee_collector_addr: f.hub.collector.to_string(), grace_period: Uint64::new(g),
                epoch_config: EpochConfig { duration: Uint64::new(d), genesis_epoch: Uint64::new(now + DAY) }, distribution_asset: f.whale.info() }, &[], "rawdist", None);
            match r { Ok(a) => { f.w.register("rawdist", &a); let c: white_whale_std::fee_distributor::Config = f.w.query(&a, &white_whale_std::fee_distributor::QueryMsg::Config {}).unwrap();
                    (Res::Ok(Default::default()), json!({"kind": "distributor", "grace": c.grace_period.to_string(), "dur": c.epoch_config.duration.to_string()}), args) }
                Err(e) => (Res::Rejected(e.to_string()), none(), args) }
        }
        "lair.update_growth" => { let g = growth_of(mv); (f.w.exec(&owner, &f.hub.lair.clone(), &white_whale_std::whale_lair::ExecuteMsg::UpdateConfig { owner: None, unbonding_period: None, growth_rate: Some(dec_atomics(g)), fee_distributor_addr: None }, &[]),
            none(), json!({"w": w, "family": "growth", "v": s(g)})) }
        "lair.instantiate_growth" | "lair.instantiate_assets" => {
            let (g, n) = if w == "lair.instantiate_growth" { (growth_of(mv), 2usize) } else { (ONE / 1000, mv as usize) };
            let args = if w == "lair.instantiate_growth" { json!({"w": w, "family": "growth", "v": s(g)}) } else { json!({"w": w, "family": "assets", "v": n.to_string()}) };
            // the list of bonding assets: n distinct denoms, or (13 / 23) three entries one of which repeats another, literally or
            // in another letter case
            let list: Vec<&str> = match n { 13 => vec!["uwhale", "ubtc", "uwhale"], 23 => vec!["uwhale", "ubtc", "UWHALE"], k => ["uwhale", "ubtc", "uatom"].iter().take(k).cloned().collect() };
            let n = list.len();
            let args = if w == "lair.instantiate_growth" { args } else { json!({"w": w, "family": "assets", "v": n.to_string()}) };
            let r = cw_multi_test::Executor::instantiate_contract(&mut f.w.app, f.w.codes.whale_lair, owner.clone(), &white_whale_std::whale_lair::InstantiateMsg {
                unbonding_period: Uint64::new(1_000_000_000_000), growth_rate: dec_atomics(g),
                bonding_assets: list.iter().map(|d| AssetInfo::NativeToken { denom: d.to_string() }).collect() }, &[], "rawlair", None);
            match r { Ok(a) => { f.w.register("rawlair", &a); let c: white_whale_std::whale_lair::Config = f.w.query(&a, &white_whale_std::whale_lair::QueryMsg::Config {}).unwrap();
                    (Res::Ok(Default::default()), json!({"kind": "lair", "growth": s(c.growth_rate.atomics().u128()), "assets": c.bonding_assets.len().to_string()}), args) }
                Err(e) => (Res::Rejected(e.to_string()), none(), args) }
        }
        "collector.update_take" | "collector.update_take+on" | "collector.update_take+off" | "collector.update_take+dao" => {
            let t = growth_of(mv);
            // what rides along with the rate: the on/off switch, or the address the take goes to
            let switch = match w { "collector.update_take+on" => Some(true), "collector.update_take+off" => Some(false), _ => None };
            let dao = if w == "collector.update_take+dao" { Some(f.w.owner.to_string()) } else { None };
            (f.w.exec(&owner, &f.hub.collector.clone(), &white_whale_std::fee_collector::ExecuteMsg::UpdateConfig { owner: None, pool_router: None, fee_distributor: None, pool_factory: None, vault_factory: None,
                take_rate: Some(Decimal::new(cosmwasm_std::Uint128::new(t))), take_rate_dao_address: dao, is_take_rate_active: switch }, &[]), none(), json!({"w": w, "family": "take", "v": s(t)}))
        }
        _ => panic!("unknown write {w}"),
    }
}

fn amp_of(m: u64) -> u64 { match m { 1000 => 1_000_000, 1001 => 1_000_001, x => x } }
fn grace_of(m: u64) -> u64 { match m { 5 => 30, 6 => 31, x => x } }
fn dur_of(m: u64) -> u64 { match m { 9 => DAY - 1, 10 => DAY, _ => DAY + 1 } }
fn growth_of(m: u64) -> u128 { share(m) }

pub fn run_schedule(rec: &mut Rec, seed: u64, run: u64, line: &str) {
    let v: Value = serde_json::from_str(line).unwrap();
    let mut f = Full::new(true);
    rec.emit(json!({"ev": "reset", "suite": "config", "run": run, "seed": seed.to_string(), "sched": v.clone(), "obs": obs(&f, none())}));
    for (i, o) in v["ops"].as_array().unwrap().iter().enumerate() {
        let dpre = f.w.digest();
        let (rs, created, args) = write(&mut f, o);
        let dpost = f.w.digest();
        rec.emit(json!({"ev": "write", "run": run, "step": i, "actor": "owner", "args": args, "res": rs.tag(), "err": jerr(&rs.err()),
            "dpre": dpre, "dpost": dpost, "obs": obs(&f, created)}));
    }
}

pub fn main(seed: u64, first: u64, runs: u64, out: &str, sched: Option<&String>) {
    let mut rec = Rec::create(out);
    let path = sched.expect("config suite needs --sched");
    let f = std::io::BufReader::new(std::fs::File::open(path).expect("schedule file"));
    let lines: Vec<String> = f.lines().map(|l| l.unwrap()).filter(|l| !l.trim().is_empty()).collect();
    let mut run = first;
    for (i, line) in lines.iter().enumerate() {
        if runs > 0 && (i as u64) >= runs {
            break;
        }
        run_schedule(&mut rec, seed, run, line);
        run += 1;
    }
    let n = rec.finish();
    eprintln!("config: {n} lines -> {out}");
}
