//! Toggle suite (C17): target x 2^3 flags x {liquidity, none}, enumerated by TLC (spec/MC_Toggles.tla);
//! every entry path of every operation is tried under the chosen flags and again after re-enabling.
use std::io::BufRead;

use cosmwasm_std::{coin, to_json_binary, Addr, Coin, CosmosMsg, Uint128, WasmMsg};
use serde_json::{json, Value};

use white_whale_std::pool_network::pair::{Cw20HookMsg as PairHook, ExecuteMsg as PairExec, FeatureToggle};
use white_whale_std::pool_network::router::{Cw20HookMsg as RouterHook, ExecuteMsg as RouterExec, SwapOperation};
use white_whale_std::vault_network::vault::{PaybackAmountResponse, UpdateConfigParams};

use crate::adversary::{AdvExecute, Atom};
use crate::full::*;
use crate::rec::Rec;
use crate::world::*;

fn hop(a: &A, b: &A) -> SwapOperation {
    SwapOperation::TerraSwap { offer_asset_info: a.info(), ask_asset_info: b.info() }
}

/// Sets the three switches of `target` as the operator would. `mode` 0: one update naming all three; 1 and 2: one
/// update per switch (the others left unnamed), in two different orders. Every mode ends with an unrelated
/// configuration update that names no switch (the fee collector is set to what it already is): a switch must keep
/// its value through updates that do not name it.
fn set_flags(f: &mut Full, target: &str, d: bool, w: bool, t: bool, mode: u64) -> Res {
    let owner = f.owner.clone();
    let collector = f.hub.collector.to_string();
    match target {
        "pair1" | "pair2" => {
            let pair = if target == "pair1" { f.pair1.clone() } else { f.pair2.clone() };
            // mode 2 sends the switches together with new fees in ONE message
            let fees = if mode % 3 == 2 { Some(pool_fee(dec_atomics(ONE / 1000), dec_atomics(ONE / 500), dec_atomics(0))) } else { None };
            let r = f.w.exec(&owner, &f.hub.pool_factory.clone(), &white_whale_std::pool_network::factory::ExecuteMsg::UpdatePairConfig {
                pair_addr: pair.to_string(), owner: None, fee_collector_addr: None, pool_fees: fees,
                feature_toggle: Some(FeatureToggle { withdrawals_enabled: w, deposits_enabled: d, swaps_enabled: t }) }, &[]);
            if !r.is_ok() { return r; }
            f.w.exec(&owner, &f.hub.pool_factory.clone(), &white_whale_std::pool_network::factory::ExecuteMsg::UpdatePairConfig {
                pair_addr: pair.to_string(), owner: None, fee_collector_addr: Some(collector), pool_fees: None, feature_toggle: None }, &[])
        }
        "trio" => {
            // modes 1 and 2 send the switches together with another setting in ONE message (an amplification ramp, new fees)
            let height = f.w.app.block_info().height;
            let ramp = if mode % 3 == 1 { Some(white_whale_std::pool_network::trio::RampAmp { future_a: 100 + (mode % 7) * 10 + if d { 1 } else { 0 }, future_block: height + 10_000 }) } else { None };
            let fees = if mode % 3 == 2 { Some(trio_fee(ONE / 1000, ONE / 500, 0)) } else { None };
            let r = f.w.exec(&owner, &f.hub.pool_factory.clone(), &white_whale_std::pool_network::factory::ExecuteMsg::UpdateTrioConfig {
                trio_addr: f.trio.to_string(), owner: None, fee_collector_addr: None, pool_fees: fees, amp_factor: ramp,
                feature_toggle: Some(white_whale_std::pool_network::trio::FeatureToggle { withdrawals_enabled: w, deposits_enabled: d, swaps_enabled: t }) }, &[]);
            if !r.is_ok() { return r; }
            f.w.exec(&owner, &f.hub.pool_factory.clone(), &white_whale_std::pool_network::factory::ExecuteMsg::UpdateTrioConfig {
                trio_addr: f.trio.to_string(), owner: None, fee_collector_addr: Some(collector), pool_fees: None, amp_factor: None, feature_toggle: None }, &[])
        }
        _ => {
            let upd = |f: &mut Full, fl: Option<bool>, de: Option<bool>, wi: Option<bool>, col: Option<String>| -> Res {
                f.w.exec(&owner, &f.hub.vault_factory.clone(), &white_whale_std::vault_network::vault_factory::ExecuteMsg::UpdateVaultConfig {
                    vault_addr: f.vault.to_string(),
                    params: UpdateConfigParams { flash_loan_enabled: fl, deposit_enabled: de, withdraw_enabled: wi,
                        new_owner: None, new_vault_fees: None, new_fee_collector_addr: col } }, &[])
            };
            let steps: Vec<(Option<bool>, Option<bool>, Option<bool>)> = match mode % 3 {
                0 => vec![(Some(t), Some(d), Some(w))],
                1 => vec![(None, Some(d), None), (None, None, Some(w)), (Some(t), None, None)],
                _ => vec![(Some(t), None, None), (None, None, Some(w)), (None, Some(d), None)],
            };
            for (fl, de, wi) in steps {
                let r = upd(f, fl, de, wi, None);
                if !r.is_ok() { return r; }
            }
            upd(f, None, None, None, Some(collector))
        }
    }
}

fn read_flags(f: &Full, target: &str) -> Value {
    match target {
        "pair1" | "pair2" => {
            let pair = if target == "pair1" { &f.pair1 } else { &f.pair2 };
            let c: white_whale_std::pool_network::pair::ConfigResponse = f.w.query(pair, &white_whale_std::pool_network::pair::QueryMsg::Config {}).unwrap();
            json!({"deposit": c.feature_toggle.deposits_enabled, "withdraw": c.feature_toggle.withdrawals_enabled, "third": c.feature_toggle.swaps_enabled})
        }
        "trio" => {
            let c: white_whale_std::pool_network::trio::ConfigResponse = f.w.query(&f.trio, &white_whale_std::pool_network::trio::QueryMsg::Config {}).unwrap();
            json!({"deposit": c.feature_toggle.deposits_enabled, "withdraw": c.feature_toggle.withdrawals_enabled, "third": c.feature_toggle.swaps_enabled})
        }
        _ => {
            let c: white_whale_std::vault_network::vault::Config = f.w.query(&f.vault, &white_whale_std::vault_network::vault::QueryMsg::Config {}).unwrap();
            json!({"deposit": c.deposit_enabled, "withdraw": c.withdraw_enabled, "third": c.flash_loan_enabled})
        }
    }
}

/// performs one operation through one path; the depositor / swapper is `user`, LP holder is `lp_user`
fn do_op(f: &mut Full, target: &str, op: &str, path: &str) -> Res {
    let user = f.user.clone();
    let lpu = f.lp_user.clone();
    let (whale, usdc, atom, tka) = (f.whale.clone(), f.usdc.clone(), f.atom.clone(), f.tka.clone());
    let half = Some(dec("0.5"));
    match (target, op, path) {
        ("pair1", "deposit", "direct") => f.w.provide_pair(&user, &f.pair1.clone(), [&whale, &usdc], [1_000_000, 2_000_000]),
        ("pair1", "deposit", "helper") => f.w.exec(&user, &f.helper.clone(), &white_whale_std::pool_network::frontend_helper::ExecuteMsg::Deposit {
            pair_address: f.pair1.to_string(), assets: [whale.asset(1_000_000), usdc.asset(2_000_000)], slippage_tolerance: None, unbonding_duration: 86_400 },
            &[coin(2_000_000, "uusdc"), coin(1_000_000, "uwhale")]),
        ("pair1", "withdraw", "hook") => { let who = holder(f, &f.pair1_lp.clone(), &[&lpu, &user]); f.w.cw20_send(&who, &f.pair1_lp.clone(), &f.pair1.clone(), 10_000, &PairHook::WithdrawLiquidity {}) }
        ("pair1", "swap", "direct") => f.w.exec(&user, &f.pair1.clone(), &PairExec::Swap { offer_asset: whale.asset(10_000), belief_price: None, max_spread: half, to: None }, &[coin(10_000, "uwhale")]),
        ("pair1", "swap", "router1") => f.w.exec(&user, &f.hub.pool_router.clone(), &RouterExec::ExecuteSwapOperations {
            operations: vec![hop(&whale, &usdc)], minimum_receive: None, to: None, max_spread: half }, &[coin(10_000, "uwhale")]),
        ("pair1", "swap", "router2") | ("pair2", "swap", "router2") => f.w.exec(&user, &f.hub.pool_router.clone(), &RouterExec::ExecuteSwapOperations {
            operations: vec![hop(&whale, &usdc), hop(&usdc, &tka)], minimum_receive: None, to: None, max_spread: half }, &[coin(10_000, "uwhale")]),
        ("pair2", "deposit", "direct") => f.w.provide_pair(&user, &f.pair2.clone(), [&usdc, &tka], [3_000_000, 1_500_000]),
        ("pair2", "withdraw", "hook") => { let who = holder(f, &f.pair2_lp.clone(), &[&lpu, &user]); f.w.cw20_send(&who, &f.pair2_lp.clone(), &f.pair2.clone(), 10_000, &PairHook::WithdrawLiquidity {}) }
        ("pair2", "swap", "direct") => f.w.exec(&user, &f.pair2.clone(), &PairExec::Swap { offer_asset: usdc.asset(10_000), belief_price: None, max_spread: half, to: None }, &[coin(10_000, "uusdc")]),
        ("pair2", "swap", "hook") => { let t = tok(&tka); f.w.cw20_send(&user, &t, &f.pair2.clone(), 10_000, &PairHook::Swap { belief_price: None, max_spread: half, to: None }) }
        ("pair2", "swap", "routerhook") => { let t = tok(&tka); f.w.cw20_send(&user, &t, &f.hub.pool_router.clone(), 10_000, &RouterHook::ExecuteSwapOperations {
            operations: vec![hop(&tka, &usdc)], minimum_receive: None, to: None, max_spread: half }) }
        ("trio", "deposit", "direct") => f.w.provide_trio(&user, &f.trio.clone(), [&whale, &usdc, &atom], [1_000_000, 1_000_000, 1_000_000]),
        ("trio", "withdraw", "hook") => { let who = holder(f, &f.trio_lp.clone(), &[&lpu, &user]); f.w.cw20_send(&who, &f.trio_lp.clone(), &f.trio.clone(), 10_000, &white_whale_std::pool_network::trio::Cw20HookMsg::WithdrawLiquidity {}) }
        ("trio", "swap", "direct") => f.w.exec(&user, &f.trio.clone(), &white_whale_std::pool_network::trio::ExecuteMsg::Swap {
            offer_asset: whale.asset(10_000), ask_asset: usdc.info(), belief_price: None, max_spread: half, to: None }, &[coin(10_000, "uwhale")]),
        ("vault", "deposit", "direct") => f.w.exec(&user, &f.vault.clone(), &white_whale_std::vault_network::vault::ExecuteMsg::Deposit { amount: Uint128::new(1_000_000) }, &[coin(1_000_000, "uwhale")]),
        ("vault", "withdraw", "hook") => { let who = holder(f, &f.vault_lp.clone(), &[&lpu, &user]); f.w.cw20_send(&who, &f.vault_lp.clone(), &f.vault.clone(), 10_000, &white_whale_std::vault_network::vault::Cw20HookMsg::Withdraw {}) }
        ("vault", "loan", "direct") => {
            let pb = payback(f, 1000);
            f.w.exec(&user, &f.adv.clone(), &AdvExecute::Run { script: vec![Atom::Loan { x: Uint128::new(1000), sub: vec![Atom::Repay { x: Uint128::new(pb) }] }], target: f.vault.to_string() }, &[])
        }
        ("vault", "loan", "router") => {
            let pb = payback(f, 1000);
            let payload: Vec<CosmosMsg> = vec![WasmMsg::Execute { contract_addr: f.adv.to_string(),
                msg: to_json_binary(&AdvExecute::Run { script: vec![Atom::Repay { x: Uint128::new(pb - 1000 + 1) }], target: f.hub.vault_router.to_string() }).unwrap(), funds: vec![] }.into()];
            f.w.exec(&user, &f.hub.vault_router.clone(), &white_whale_std::vault_network::vault_router::ExecuteMsg::FlashLoan { assets: vec![whale.asset(1000)], msgs: payload }, &[])
        }
        _ => panic!("no operation {target}/{op}/{path}"),
    }
}

fn tok(a: &A) -> Addr {
    match a { A::Cw20(t) => t.clone(), _ => panic!("not a cw20") }
}

fn holder(f: &Full, lp: &Addr, cands: &[&Addr]) -> Addr {
    let lpa = A::Cw20(lp.clone());
    for c in cands {
        if f.w.balance(c, &lpa) >= 10_000 {
            return (*c).clone();
        }
    }
    cands[0].clone()
}

fn payback(f: &Full, amt: u128) -> u128 {
    let r: PaybackAmountResponse = f.w.query(&f.vault, &white_whale_std::vault_network::vault::QueryMsg::GetPaybackAmount { amount: Uint128::new(amt) }).unwrap();
    r.payback_amount.u128()
}

pub fn run_schedule(rec: &mut Rec, seed: u64, run: u64, line: &str) {
    let v: Value = serde_json::from_str(line).unwrap();
    let target = v["target"].as_str().unwrap().to_string();
    let liq = v["liq"].as_bool().unwrap();
    let fl = &v["flags"];
    let (d, w, t) = (fl["deposit"].as_bool().unwrap(), fl["withdraw"].as_bool().unwrap(), fl["third"].as_bool().unwrap());
    let mut f = Full::new(liq);
    rec.emit(json!({"ev": "reset", "suite": "toggles", "run": run, "seed": seed.to_string(), "sched": v.clone(),
        "cfg": {"target": target, "liq": liq}, "obs": {"flags": read_flags(&f, &target)}}));
    let mut step = 0usize;
    for (phase, (pd, pw, pt)) in [("set", (d, w, t)), ("restored", (true, true, true))] {
        let dpre = f.w.digest();
        let rs = set_flags(&mut f, &target, pd, pw, pt, run);
        let dpost = f.w.digest();
        rec.emit(json!({"ev": "setflags", "run": run, "step": step, "actor": "owner",
            "args": {"target": target, "mode": run % 3, "flags": {"deposit": pd, "withdraw": pw, "third": pt}},
            "res": rs.tag(), "err": jerr(&rs.err()), "dpre": dpre, "dpost": dpost, "obs": {"flags": read_flags(&f, &target)}}));
        step += 1;
        for o in v["ops"].as_array().unwrap() {
            let (op, path) = (o["op"].as_str().unwrap(), o["path"].as_str().unwrap());
            // exact allowances are set-up, not part of the observed operation
            if target == "pair2" && op == "deposit" {
                let (u, t2, p2) = (f.user.clone(), tok(&f.tka), f.pair2.clone());
                f.w.set_allowance(&u, &t2, &p2, 1_500_000);
            }
            let dpre = f.w.digest();
            let rs = do_op(&mut f, &target, op, path);
            let dpost = f.w.digest();
            rec.emit(json!({"ev": "op", "run": run, "step": step, "actor": "user1",
                "args": {"target": target, "op": op, "path": path, "phase": phase},
                "res": rs.tag(), "err": jerr(&rs.err()), "dpre": dpre, "dpost": dpost, "obs": {"flags": read_flags(&f, &target)}}));
            step += 1;
        }
    }
}

pub fn main(seed: u64, first: u64, runs: u64, out: &str, sched: Option<&String>) {
    let mut rec = Rec::create(out);
    let path = sched.expect("toggles suite needs --sched (TLC-generated product)");
    let f = std::io::BufReader::new(std::fs::File::open(path).expect("schedule file"));
    let lines: Vec<String> = f.lines().map(|l| l.unwrap()).filter(|l| !l.trim().is_empty()).collect();
    let mut run = first;
    for (i, line) in lines.iter().enumerate() {
        if runs > 0 && (i as u64) >= runs {
            break;
        }
        run_schedule(&mut rec, seed, run, line);
        run += 1;
    }
    let n = rec.finish();
    eprintln!("toggles: {n} lines -> {out}");
}
