//! Pipeline suite (C10): NewEpoch on the fully wired hub with two pairs, a trio and two vaults carrying
//! pending protocol fees in every class (zero / below / above the collection threshold), routes present /
//! absent / failing at execution, and every take-rate setting.  Configurations are enumerated by TLC
//! (spec/MC_Pipeline.tla); amounts are drawn per seed.
use std::io::BufRead;

use cosmwasm_std::{coin, to_json_binary, Addr, Coin, CosmosMsg, Decimal, Uint128, Uint64, WasmMsg};
use rand::rngs::StdRng;
use rand::Rng;
use serde_json::{json, Value};

use white_whale_std::fee_distributor::{EpochResponse, ExecuteMsg as DistExec, QueryMsg as DistQuery};
use white_whale_std::pool_network::pair::{Cw20HookMsg as PairHook, ExecuteMsg as PairExec, ProtocolFeesResponse};
use white_whale_std::pool_network::router::{SwapOperation, SwapRoute};

use crate::adversary::{new_adversary, AdvExecute, Atom};
use crate::full::*;
use crate::gen;
use crate::hub::DAY;
use crate::rec::Rec;
use crate::suites::vault::vault_fee;
use crate::world::*;

const ASSETS: [&str; 4] = ["uwhale", "uusdc", "uatom", "tokena"];

struct Pipe {
    /// a registered vault refuses every message (fault injection): the collector's Fees query over the vault factory fails too
    broken: bool,
    f: Full,
    vault2: Addr,
    adv2: Addr,
    dao: Addr,
}

fn hop(a: &A, b: &A) -> SwapOperation {
    SwapOperation::TerraSwap { offer_asset_info: a.info(), ask_asset_info: b.info() }
}

impl Pipe {
    fn new() -> Pipe {
        let mut f = Full::new(true);
        let (vault2, vault2_lp) = f.w.create_vault(&f.hub.vault_factory.clone(), &f.usdc.clone(), vault_fee(ONE / 1000, ONE / 1000, 0), "vault2").unwrap();
        let lp = f.lp_user.clone();
        let r = f.w.exec(&lp, &vault2, &white_whale_std::vault_network::vault::ExecuteMsg::Deposit { amount: Uint128::new(5_000_000_000) }, &[coin(5_000_000_000, "uusdc")]);
        assert!(r.is_ok(), "{}", r.err());
        let adv2 = {
            let code = f.w.app.store_code(crate::adversary::contract());
            let a = cw_multi_test::Executor::instantiate_contract(&mut f.w.app, code, f.w.owner.clone(),
                &crate::adversary::AdvInstantiate { vault: vault2.to_string(), asset: f.usdc.info(), lp_token: vault2_lp.to_string() }, &[], "adversary2", None).unwrap();
            f.w.register("adv2", &a);
            a
        };
        let usdc = f.usdc.clone();
        f.w.fund(&adv2, &usdc, 1_000_000_000_000);
        let dao = f.w.add_account("dao");
        // grace 1: the previous epoch's remainder rolls over into every new epoch
        let _ = new_adversary;
        Pipe { broken: false, f, vault2, adv2, dao }
    }

    fn asset(&self, name: &str) -> A {
        match name { "uwhale" => self.f.whale.clone(), "uusdc" => self.f.usdc.clone(), "uatom" => self.f.atom.clone(), _ => self.f.tka.clone() }
    }

    fn pool_fees(&self, c: &Addr, all_time: bool, trio: bool) -> Vec<u128> {
        let fees: Vec<white_whale_std::pool_network::asset::Asset> = if trio {
            let r: white_whale_std::pool_network::trio::ProtocolFeesResponse = self.f.w.query(c, &white_whale_std::pool_network::trio::QueryMsg::ProtocolFees { asset_id: None, all_time: Some(all_time) }).unwrap();
            r.fees
        } else {
            let r: ProtocolFeesResponse = self.f.w.query(c, &white_whale_std::pool_network::pair::QueryMsg::ProtocolFees { asset_id: None, all_time: Some(all_time) }).unwrap();
            r.fees
        };
        ASSETS.iter().map(|a| fees.iter().find(|x| x.info == self.asset(a).info()).map(|x| x.amount.u128()).unwrap_or(0)).collect()
    }
    fn vault_fees(&self, v: &Addr, asset: &str, all_time: bool) -> Vec<u128> {
        let r: white_whale_std::vault_network::vault::ProtocolFeesResponse = self.f.w.query(v, &white_whale_std::vault_network::vault::QueryMsg::ProtocolFees { all_time }).unwrap();
        ASSETS.iter().map(|a| if *a == asset { r.fees.amount.u128() } else { 0 }).collect()
    }

    fn obs(&self) -> Value {
        let f = &self.f;
        let per = |v: Vec<u128>| -> Value { let mut m = serde_json::Map::new(); for (i, a) in ASSETS.iter().enumerate() { m.insert(a.to_string(), s(v[i])); } Value::Object(m) };
        let bal = |who: &Addr| -> Value { per(ASSETS.iter().map(|a| f.w.balance(who, &self.asset(a))).collect()) };
        let kids = json!({
            "pair1": per(self.pool_fees(&f.pair1, false, false)), "pair2": per(self.pool_fees(&f.pair2, false, false)),
            "trio": per(self.pool_fees(&f.trio, false, true)),
            "vault1": per(self.vault_fees(&f.vault, "uwhale", false)), "vault2": per(self.vault_fees(&self.vault2, "uusdc", false))});
        let all = json!({
            "pair1": per(self.pool_fees(&f.pair1, true, false)), "pair2": per(self.pool_fees(&f.pair2, true, false)),
            "trio": per(self.pool_fees(&f.trio, true, true)),
            "vault1": per(self.vault_fees(&f.vault, "uwhale", true)), "vault2": per(self.vault_fees(&self.vault2, "uusdc", true))});
        // what the collector's own Fees query says its factories' children hold (pending and all-time), per asset
        let qok = std::cell::Cell::new(true);
        let qfees = |vaults: bool, all_time: bool| -> Value {
            use white_whale_std::fee_collector::{FactoryType, FeesFor, QueryMsg as CQ};
            let q = CQ::Fees { query_fees_for: FeesFor::Factory {
                factory_addr: if vaults { f.hub.vault_factory.to_string() } else { f.hub.pool_factory.to_string() },
                factory_type: if vaults { FactoryType::Vault { start_after: None, limit: None } } else { FactoryType::Pool { start_after: None, limit: None } } }, all_time: Some(all_time) };
            match f.w.query::<Vec<white_whale_std::pool_network::asset::Asset>, _>(&f.hub.collector, &q) {
                Ok(v) => per(ASSETS.iter().map(|a| v.iter().filter(|x| x.info == self.asset(a).info()).map(|x| x.amount.u128()).sum()).collect()),
                Err(_) => { qok.set(false); per(vec![0; ASSETS.len()]) }
            }
        };
        let qf = json!({"pool": qfees(false, false), "pool_all": qfees(false, true), "vault": qfees(true, false), "vault_all": qfees(true, true), "ok": qok.get(), "faulty": self.broken});
        let cfg: white_whale_std::fee_collector::Config = f.w.query(&f.hub.collector, &white_whale_std::fee_collector::QueryMsg::Config {}).unwrap();
        let cur: EpochResponse = f.w.query(&f.hub.distributor, &DistQuery::CurrentEpoch {}).unwrap();
        let hist: Result<Coin, _> = f.w.query(&f.hub.collector, &white_whale_std::fee_collector::QueryMsg::TakeRateHistory { epoch_id: cur.epoch.id });
        json!({"pending": kids, "alltime": all, "qfees": qf, "col": bal(&f.hub.collector), "dao": bal(&self.dao),
            "supply": per(ASSETS.iter().map(|a| f.w.supply(&self.asset(a))).collect()),
            "dist": s(f.w.balance(&f.hub.distributor, &f.whale)),
            "take": {"active": cfg.is_take_rate_active, "rate": s(cfg.take_rate.atomics().u128()), "dao_set": !cfg.take_rate_dao_address.as_str().is_empty()},
            "history": match hist { Ok(c) => s(c.amount.u128()), Err(_) => s(0) },
            "epoch": {"id": cur.epoch.id.u64(), "total": s(cur.epoch.total.iter().map(|a| a.amount.u128()).sum::<u128>()),
                      "available": s(cur.epoch.available.iter().map(|a| a.amount.u128()).sum::<u128>())}})
    }

    /// a swap on a pair that leaves a pending protocol fee of roughly `target` on the ask asset (fee 0.1 %)
    fn make_pair_fee(&mut self, pair: usize, target: u128) {
        if target == 0 { return; }
        let u = self.f.user.clone();
        let gross = target * 1000 + 500;
        if pair == 1 {
            // usdc -> whale on pair1 (reserves 1e9 / 2e9): offer ~ 2 * gross
            let offer = gross * 2 + gross / 100;
            let r = self.f.w.exec(&u, &self.f.pair1.clone(), &PairExec::Swap { offer_asset: self.f.usdc.asset(offer), belief_price: None, max_spread: Some(dec("0.5")), to: None }, &[coin(offer, "uusdc")]);
            assert!(r.is_ok(), "{}", r.err());
        } else if pair == 3 {
            // usdc -> tka on pair2: the protocol fee is charged in the cw20 token (offer ~ 2 * gross)
            let offer = gross * 2 + gross / 50 + 1;
            let r = self.f.w.exec(&u, &self.f.pair2.clone(), &PairExec::Swap { offer_asset: self.f.usdc.asset(offer), belief_price: None, max_spread: Some(dec("0.5")), to: None }, &[coin(offer, "uusdc")]);
            assert!(r.is_ok(), "{}", r.err());
        } else {
            // tka -> usdc on pair2 (reserves usdc 3e9 / tka 1.5e9): offer ~ gross / 2
            let offer = gross / 2 + gross / 100 + 1;
            let t = match &self.f.tka { A::Cw20(t) => t.clone(), _ => unreachable!() };
            let r = self.f.w.cw20_send(&u, &t, &self.f.pair2.clone(), offer, &PairHook::Swap { belief_price: None, max_spread: Some(dec("0.5")), to: None });
            assert!(r.is_ok(), "{}", r.err());
        }
    }

    /// a swap on the trio (whale -> usdc) that leaves a pending protocol fee of roughly `target` usdc
    fn make_trio_fee(&mut self, target: u128) {
        if target == 0 { return; }
        let u = self.f.user.clone();
        let offer = target * 1000 + 500;
        let r = self.f.w.exec(&u, &self.f.trio.clone(), &white_whale_std::pool_network::trio::ExecuteMsg::Swap {
            offer_asset: self.f.whale.asset(offer), ask_asset: self.f.usdc.info(), belief_price: None, max_spread: Some(dec("0.5")), to: None }, &[coin(offer, "uwhale")]);
        assert!(r.is_ok(), "{}", r.err());
    }

    /// a flash loan that leaves `target` pending on the vault (protocol fee 0.1 %)
    fn make_vault_fee(&mut self, which: usize, target: u128) {
        if target == 0 { return; }
        let (vault, adv) = if which == 1 { (self.f.vault.clone(), self.f.adv.clone()) } else { (self.vault2.clone(), self.adv2.clone()) };
        let amt = target * 1000;
        let pb: white_whale_std::vault_network::vault::PaybackAmountResponse = self.f.w.query(&vault, &white_whale_std::vault_network::vault::QueryMsg::GetPaybackAmount { amount: Uint128::new(amt) }).unwrap();
        let u = self.f.user.clone();
        let r = self.f.w.exec(&u, &adv, &AdvExecute::Run { script: vec![Atom::Loan { x: Uint128::new(amt), sub: vec![Atom::Repay { x: pb.payback_amount }] }], target: vault.to_string() }, &[]);
        assert!(r.is_ok(), "{}", r.err());
    }
}

fn class_amount(r: &mut StdRng, model: u64, min: u64) -> u128 {
    // model classes: 0 -> nothing; == min -> in 1..=1000 (not collectable for pools); > min -> above the threshold
    if model == 0 { 0 } else if model == min { r.gen_range(1..=1000u128) } else { r.gen_range(1001..=60_000u128) }
}

pub fn run_schedule(rec: &mut Rec, seed: u64, run: u64, line: &str) {
    let v: Value = serde_json::from_str(line).unwrap();
    let c = &v["cfg"];
    let mut r = gen::rng(seed, run ^ 0x5049_5045);
    let mut p = Pipe::new();
    let owner = p.f.owner.clone();
    // grace period 1 so that the second epoch rolls the first one over
    let _ = p.f.w.exec(&owner, &p.f.hub.distributor.clone(), &DistExec::UpdateConfig { owner: None, bonding_contract_addr: None, fee_collector_addr: None,
        grace_period: Some(Uint64::new(3)), distribution_asset: None, epoch_config: None }, &[]);
    // routes
    let route = c["route"].as_str().unwrap();
    if route != "noroute" {
        let (whale, usdc, tka) = (p.f.whale.clone(), p.f.usdc.clone(), p.f.tka.clone());
        let rs = p.f.w.exec(&owner, &p.f.hub.pool_router.clone(), &white_whale_std::pool_network::router::ExecuteMsg::AddSwapRoutes { swap_routes: vec![
            SwapRoute { offer_asset_info: usdc.info(), ask_asset_info: whale.info(), swap_operations: vec![hop(&usdc, &whale)] },
            SwapRoute { offer_asset_info: tka.info(), ask_asset_info: whale.info(), swap_operations: vec![hop(&tka, &usdc), hop(&usdc, &whale)] }] }, &[]);
        assert!(rs.is_ok(), "{}", rs.err());
    }
    // the collector uses the router that holds the routes
    let rate = match c["rate"].as_u64().unwrap() { 0 => 0u128, 1 => 1, 10 => ONE / 10, _ => ONE - 1 };
    let rs = p.f.w.exec(&owner, &p.f.hub.collector.clone(), &white_whale_std::fee_collector::ExecuteMsg::UpdateConfig {
        owner: None, pool_router: Some(p.f.hub.pool_router.to_string()), fee_distributor: None, pool_factory: None, vault_factory: None,
        take_rate: Some(Decimal::new(Uint128::new(rate))), take_rate_dao_address: Some(p.dao.to_string()), is_take_rate_active: Some(c["active"].as_bool().unwrap()) }, &[]);
    assert!(rs.is_ok(), "{}", rs.err());
    // a third vault (over uatom), created through the factory from a code that refuses every message
    let broken = c["broken"].as_bool().unwrap_or(false);
    if broken {
        use white_whale_std::vault_network::vault_factory::ExecuteMsg as VF;
        let vf = p.f.hub.vault_factory.clone();
        let cfg: white_whale_std::vault_network::vault_factory::Config = p.f.w.query(&vf, &white_whale_std::vault_network::vault_factory::QueryMsg::Config {}).unwrap();
        let code = p.f.w.app.store_code(crate::hookrecv::broken_vault_contract());
        let r1 = p.f.w.exec(&owner, &vf, &VF::UpdateConfig { owner: None, fee_collector_addr: None, vault_id: Some(code), token_id: None }, &[]);
        assert!(r1.is_ok(), "{}", r1.err());
        let r2 = p.f.w.exec(&owner, &vf, &VF::CreateVault { asset_info: p.f.atom.info(), fees: vault_fee(ONE / 1000, ONE / 1000, 0), token_factory_lp: false }, &[]);
        assert!(r2.is_ok(), "{}", r2.err());
        let r3 = p.f.w.exec(&owner, &vf, &VF::UpdateConfig { owner: None, fee_collector_addr: None, vault_id: Some(cfg.vault_id), token_id: None }, &[]);
        assert!(r3.is_ok(), "{}", r3.err());
        p.broken = true;
    }
    rec.emit(json!({"ev": "reset", "suite": "pipeline", "run": run, "seed": seed.to_string(), "sched": v.clone(),
        "cfg": {"rate": s(rate), "active": c["active"].as_bool().unwrap()}, "obs": p.obs()}));
    let mut step = 0usize;
    for round in 0..2 {
        // pending fees in the chosen classes (fresh amounts each round)
        let (p1, p2, v1, v2) = (class_amount(&mut r, c["p1"].as_u64().unwrap(), 10), class_amount(&mut r, c["p2"].as_u64().unwrap(), 10),
                                class_amount(&mut r, c["v1"].as_u64().unwrap(), 10), if c["v2"].as_u64().unwrap() == 0 { 0 } else { r.gen_range(1..=5000u128) });
        p.make_pair_fee(1, p1);
        // the second pair's fee is charged in usdc (even runs) or in its cw20 asset (odd runs)
        p.make_pair_fee(if run % 2 == 0 { 2 } else { 3 }, p2);
        if run % 3 == 0 { p.make_trio_fee(p1); }
        p.make_vault_fee(1, v1);
        p.make_vault_fee(2, v2);
        if c["pre"].as_u64().unwrap() > 0 {
            let col = p.f.hub.collector.clone();
            // also at the magnitudes of 18-decimal distribution assets, where 128-bit products of balance and rate overflow
            let amt = match run % 3 { 0 => r.gen_range(1..=5_000_000u128), 1 => gen::log_uniform(&mut r, 1_000_000_000_000_000_000, 1_000_000_000_000_000_000_000_000), _ => gen::log_uniform(&mut r, 1, 1u128 << 100) };
            p.f.w.mint_native(&col, "uwhale", amt);
        }
        if route == "fails" {
            // far more than the pool can absorb within the 50 % spread the collector allows
            let col = p.f.hub.collector.clone();
            p.f.w.mint_native(&col, "uusdc", 50_000_000_000);
        }
        rec.emit(json!({"ev": "setup", "run": run, "step": step, "actor": "owner", "args": {"round": round}, "res": "ok", "err": "", "obs": p.obs()}));
        step += 1;
        // anyone but the distributor is refused
        for (who, name) in [(p.f.user.clone(), "user1"), (owner.clone(), "owner")] {
            let dpre = p.f.w.digest();
            let rs = p.f.w.exec(&who, &p.f.hub.collector.clone(), &white_whale_std::fee_collector::ExecuteMsg::ForwardFees {
                epoch: white_whale_std::fee_distributor::Epoch::default(), forward_fees_as: p.f.whale.info() }, &[]);
            let dpost = p.f.w.digest();
            rec.emit(json!({"ev": "forward", "run": run, "step": step, "actor": name, "args": {}, "res": rs.tag(), "err": jerr(&rs.err()),
                "dpre": dpre, "dpost": dpost, "obs": p.obs()}));
            step += 1;
        }
        // time moves to the boundary
        let cur: EpochResponse = p.f.w.query(&p.f.hub.distributor, &DistQuery::CurrentEpoch {}).unwrap();
        let dcfg: white_whale_std::fee_distributor::Config = p.f.w.query(&p.f.hub.distributor, &DistQuery::Config {}).unwrap();
        let boundary = if cur.epoch.id.u64() == 0 { dcfg.epoch_config.genesis_epoch.u64().max(DAY) } else { cur.epoch.start_time.nanos() + DAY };
        let now = p.f.w.now_nanos();
        if now < boundary { p.f.w.advance(boundary - now, 1); }
        let n = cur.epoch.id.u64();
        let grace = dcfg.grace_period.u64();
        let expiring: u128 = if n >= grace {
            let e: EpochResponse = p.f.w.query(&p.f.hub.distributor, &DistQuery::Epoch { id: Uint64::new(n - grace + 1) }).unwrap();
            e.epoch.available.iter().map(|a| a.amount.u128()).sum()
        } else { 0 };
        let dpre = p.f.w.digest();
        let u = p.f.user.clone();
        let rs = p.f.w.exec(&u, &p.f.hub.distributor.clone(), &DistExec::NewEpoch {}, &[]);
        let dpost = p.f.w.digest();
        rec.emit(json!({"ev": "newepoch", "run": run, "step": step, "actor": "user1", "args": {"round": round, "route": route, "broken": broken}, "pre": {"expiring_available": s(expiring)},
            "res": rs.tag(), "err": jerr(&rs.err()), "dpre": dpre, "dpost": dpost, "obs": p.obs()}));
        step += 1;
        if !rs.is_ok() { break; }
        // between the rounds, on every other run, the owner flips the take-rate switch with a message that carries the switch
        // alone (no rate, no address)
        if round == 0 && run % 2 == 1 {
            let flip = !c["active"].as_bool().unwrap();
            let dpre = p.f.w.digest();
            let rs = p.f.w.exec(&owner, &p.f.hub.collector.clone(), &white_whale_std::fee_collector::ExecuteMsg::UpdateConfig {
                owner: None, pool_router: None, fee_distributor: None, pool_factory: None, vault_factory: None,
                take_rate: None, take_rate_dao_address: None, is_take_rate_active: Some(flip) }, &[]);
            let dpost = p.f.w.digest();
            rec.emit(json!({"ev": "setflag", "run": run, "step": step, "actor": "owner", "args": {"active": flip}, "res": rs.tag(), "err": jerr(&rs.err()),
                "dpre": dpre, "dpost": dpost, "obs": p.obs()}));
            step += 1;
        }
        // shorten the grace period window for the next round: with grace 3 nothing expires in two rounds, so
        // use a third and fourth epoch without fees in between
        if round == 0 {
            for _ in 0..2 {
                let cur: EpochResponse = p.f.w.query(&p.f.hub.distributor, &DistQuery::CurrentEpoch {}).unwrap();
                let b = cur.epoch.start_time.nanos() + DAY;
                let now = p.f.w.now_nanos();
                if now < b { p.f.w.advance(b - now, 1); }
                let n = cur.epoch.id.u64();
                let expiring: u128 = if n >= grace {
                    let e: EpochResponse = p.f.w.query(&p.f.hub.distributor, &DistQuery::Epoch { id: Uint64::new(n - grace + 1) }).unwrap();
                    e.epoch.available.iter().map(|a| a.amount.u128()).sum()
                } else { 0 };
                rec.emit(json!({"ev": "setup", "run": run, "step": step, "actor": "owner", "args": {"round": round}, "res": "ok", "err": "", "obs": p.obs()}));
                step += 1;
                let dpre = p.f.w.digest();
                let rs = p.f.w.exec(&u, &p.f.hub.distributor.clone(), &DistExec::NewEpoch {}, &[]);
                let dpost = p.f.w.digest();
                rec.emit(json!({"ev": "newepoch", "run": run, "step": step, "actor": "user1", "args": {"round": round, "route": route, "broken": broken}, "pre": {"expiring_available": s(expiring)},
                    "res": rs.tag(), "err": jerr(&rs.err()), "dpre": dpre, "dpost": dpost, "obs": p.obs()}));
                step += 1;
            }
        }
    }
    let _: Vec<CosmosMsg> = vec![];
    let _ = to_json_binary(&0u8);
    let _ = WasmMsg::ClearAdmin { contract_addr: String::new() };
}

pub fn main(seed: u64, first: u64, runs: u64, out: &str, sched: Option<&String>) {
    let mut rec = Rec::create(out);
    let path = sched.expect("pipeline suite needs --sched");
    let f = std::io::BufReader::new(std::fs::File::open(path).expect("schedule file"));
    let lines: Vec<String> = f.lines().map(|l| l.unwrap()).filter(|l| !l.trim().is_empty()).collect();
    let mut run = first;
    for (i, line) in lines.iter().enumerate() {
        if runs > 0 && (i as u64) >= runs {
            break;
        }
        run_schedule(&mut rec, seed, run, line);
        run += 1;
    }
    let n = rec.finish();
    eprintln!("pipeline: {n} lines -> {out}");
}
