//! Distributor suite (C09, and the clock part of C10): NewEpoch with arbitrary inflows, claims by bonders in
//! every order, bond / unbond, grace-period increases, on the real fee distributor + whale lair + fee
//! collector.  Driven by TLC-generated schedules (spec/MC_Distributor.tla) and by a seeded random driver.
use std::io::BufRead;

use cosmwasm_std::{coin, Addr, Uint128, Uint64};
use rand::Rng;
use serde_json::{json, Value};

use white_whale_std::fee_distributor::{ClaimableEpochsResponse, Config, EpochResponse, ExecuteMsg, QueryMsg};
use white_whale_std::pool_network::asset::{Asset, AssetInfo};
use white_whale_std::whale_lair::{BondedResponse, BondingWeightResponse};

use crate::gen;
use crate::hub::{Hub, DAY};
use crate::rec::Rec;
use crate::world::*;

pub const USERS: [&str; 3] = ["user1", "user2", "user3"];

pub struct DistRun {
    pub w: World,
    pub hub: Hub,
    pub users: Vec<Addr>,
    pub dao: Addr,
    /// assets followed: ["uwhale"], or ["uwhale", "uusdc"] when the owner switches the distribution asset mid-history
    /// (kind multi). Every event is then recorded once per asset, as that asset's projection of the history; the
    /// projections are emitted as separate runs (2*run, 2*run+1) and validated against the same specification.
    pub denoms: Vec<&'static str>,
    pub bufs: Vec<Vec<Value>>,
}

fn amt_of(assets: &[Asset], denom: &str) -> u128 {
    assets.iter().filter(|a| a.info == AssetInfo::NativeToken { denom: denom.into() }).map(|a| a.amount.u128()).sum()
}

impl DistRun {
    pub fn new(grace: u64) -> DistRun { DistRun::new_kind(grace, false) }

    pub fn new_kind(grace: u64, multi: bool) -> DistRun {
        let mut w = World::new();
        let now = w.now_nanos();
        w.add_denom("uwhale");
        w.add_denom("ubtc");
        w.add_denom("uusdc");
        let hub = w.new_hub(grace, DAY, now + 1_000_000_000, "uwhale", &["uwhale", "ubtc"], 1_000_000_000_000);
        let users: Vec<Addr> = USERS.iter().map(|u| w.add_account(u)).collect();
        for u in &users {
            w.mint_native(u, "uwhale", 1u128 << 100);
            w.mint_native(u, "ubtc", 1u128 << 100);
        }
        let dao = w.add_account("dao");
        let denoms = if multi { vec!["uwhale", "uusdc"] } else { vec!["uwhale"] };
        let bufs = denoms.iter().map(|_| vec![]).collect();
        DistRun { w, hub, users, dao, denoms, bufs }
    }

    pub fn distribution_denom(&self) -> String {
        let cfg: Config = self.w.query(&self.hub.distributor, &QueryMsg::Config {}).unwrap();
        match cfg.distribution_asset { AssetInfo::NativeToken { denom } => denom, AssetInfo::Token { contract_addr } => contract_addr }
    }

    /// switches the collector's take rate on (the DAO's cut of every forwarded balance)
    pub fn set_take_rate(&mut self, atomics: u128) {
        let owner = self.w.owner.clone();
        let rs = self.w.exec(&owner, &self.hub.collector.clone(), &white_whale_std::fee_collector::ExecuteMsg::UpdateConfig {
            owner: None, pool_router: None, fee_distributor: None, pool_factory: None, vault_factory: None,
            take_rate: Some(cosmwasm_std::Decimal::new(Uint128::new(atomics))), take_rate_dao_address: Some(self.dao.to_string()), is_take_rate_active: Some(true) }, &[]);
        assert!(rs.is_ok(), "take rate: {}", rs.err());
    }
    /// the take rate in force (atomics; 0 when switched off)
    pub fn take_rate(&self) -> u128 {
        let c: white_whale_std::fee_collector::Config = self.w.query(&self.hub.collector, &white_whale_std::fee_collector::QueryMsg::Config {}).unwrap();
        if c.is_take_rate_active { c.take_rate.atomics().u128() } else { 0 }
    }

    pub fn current_id(&self) -> u64 {
        let r: EpochResponse = self.w.query(&self.hub.distributor, &QueryMsg::CurrentEpoch {}).unwrap();
        r.epoch.id.u64()
    }

    pub fn obs(&self) -> Value { self.obs_for("uwhale") }

    pub fn obs_for(&self, denom: &str) -> Value {
        let w = &self.w;
        let multi = self.denoms.len() > 1;
        let n = self.current_id();
        let mut eps = vec![];
        for id in 1..=n {
            let r: EpochResponse = w.query(&self.hub.distributor, &QueryMsg::Epoch { id: Uint64::new(id) }).unwrap();
            eps.push(json!({"id": id, "start": r.epoch.start_time.nanos().to_string(), "total": s(amt_of(&r.epoch.total, denom)),
                "available": s(amt_of(&r.epoch.available, denom)), "claimed": s(amt_of(&r.epoch.claimed, denom)),
                "other": !multi && (r.epoch.total.len() > 1 || r.epoch.available.len() > 1)}));
        }
        let cfg: Config = w.query(&self.hub.distributor, &QueryMsg::Config {}).unwrap();
        let mut wal = serde_json::Map::new();
        let mut first = serde_json::Map::new();
        let mut bonded = serde_json::Map::new();
        let mut claimable = serde_json::Map::new();
        for (i, u) in self.users.iter().enumerate() {
            wal.insert(USERS[i].into(), s(w.balance(u, &A::Native(denom.into()))));
            let b: BondedResponse = w.query(&self.hub.lair, &white_whale_std::whale_lair::QueryMsg::Bonded { address: u.to_string() }).unwrap();
            first.insert(USERS[i].into(), json!(b.first_bonded_epoch_id.to_string()));
            bonded.insert(USERS[i].into(), json!(!b.bonded_assets.is_empty()));
            let c: ClaimableEpochsResponse = w.query(&self.hub.distributor, &QueryMsg::Claimable { address: u.to_string() }).unwrap();
            claimable.insert(USERS[i].into(), Value::Array(c.epochs.iter().map(|e| json!(e.id.u64())).collect()));
        }
        json!({"eps": eps, "dbal": s(w.balance(&self.hub.distributor, &A::Native(denom.into()))),
            "cbal": s(w.balance(&self.hub.collector, &A::Native(denom.into()))),
            "dao": s(w.balance(&self.dao, &A::Native(denom.into()))),
            "w": Value::Object(wal), "grace": cfg.grace_period.u64(), "first": Value::Object(first),
            "bonded": Value::Object(bonded), "claimable": Value::Object(claimable), "now": w.now_nanos().to_string()})
    }

    /// shares the lair reports for the user's claimable epochs (what Claim will use)
    fn shares(&self, ui: usize, denom: &str) -> Value {
        let u = &self.users[ui];
        let c: ClaimableEpochsResponse = self.w.query(&self.hub.distributor, &QueryMsg::Claimable { address: u.to_string() }).unwrap();
        let mut out = vec![];
        for e in c.epochs {
            let r: Result<BondingWeightResponse, _> = self.w.query(&self.hub.lair, &white_whale_std::whale_lair::QueryMsg::Weight {
                address: u.to_string(), timestamp: Some(e.start_time), global_index: Some(e.global_index.clone()) });
            out.push(json!({"id": e.id.u64(), "share": match r { Ok(x) => s(x.share.atomics().u128()), Err(_) => json!("err") },
                "total": s(amt_of(&e.total, denom))}));
        }
        Value::Array(out)
    }

    pub fn step(&mut self, rec: &mut Rec, run: u64, step: usize, op: &str, ui: usize, x: u128) {
        let u = self.users[ui.min(2)].clone();
        let denoms = self.denoms.clone();
        let multi = denoms.len() > 1;
        let actor = if op == "setgrace" || op == "setasset" { "owner" } else { USERS[ui.min(2)] };
        let wallet_before: Vec<u128> = denoms.iter().map(|d| self.w.balance(&u, &A::Native((*d).into()))).collect();
        let dbal_before: Vec<u128> = denoms.iter().map(|d| self.w.balance(&self.hub.distributor, &A::Native((*d).into()))).collect();
        let mut pres: Vec<Value> = denoms.iter().map(|_| json!({})).collect();
        let rs = match op {
            "newepoch" => {
                // time moves to the next boundary if it has not been reached, the inflow arrives at the collector
                let cur: EpochResponse = self.w.query(&self.hub.distributor, &QueryMsg::CurrentEpoch {}).unwrap();
                let cfg: Config = self.w.query(&self.hub.distributor, &QueryMsg::Config {}).unwrap();
                let boundary = if cur.epoch.id.u64() == 0 { cfg.epoch_config.genesis_epoch.u64().max(DAY) } else { cur.epoch.start_time.nanos() + DAY };
                let now = self.w.now_nanos();
                if now < boundary {
                    self.w.advance(boundary - now, 1);
                }
                let col = self.hub.collector.clone();
                let dd = self.distribution_denom();
                self.w.mint_native(&col, &dd, x);
                // the collector forwards its whole balance of the distribution asset and nothing else
                let take = self.take_rate();
                pres = denoms.iter().map(|d| json!({"inflow": s(if *d == dd { self.w.balance(&col, &A::Native((*d).into())) } else { 0 }), "take": s(take)})).collect();
                self.w.exec(&u, &self.hub.distributor.clone(), &ExecuteMsg::NewEpoch {}, &[])
            }
            "claim" => {
                pres = denoms.iter().map(|d| json!({"shares": self.shares(ui, d)})).collect();
                self.w.exec(&u, &self.hub.distributor.clone(), &ExecuteMsg::Claim {}, &[])
            }
            "bond" => self.w.exec(&u, &self.hub.lair.clone(), &white_whale_std::whale_lair::ExecuteMsg::Bond {
                asset: Asset { info: AssetInfo::NativeToken { denom: "ubtc".into() }, amount: Uint128::new(x.max(1)) } }, &[coin(x.max(1), "ubtc")]),
            "unbond" => self.w.exec(&u, &self.hub.lair.clone(), &white_whale_std::whale_lair::ExecuteMsg::Unbond {
                asset: Asset { info: AssetInfo::NativeToken { denom: "ubtc".into() }, amount: Uint128::new(x.max(1)) } }, &[]),
            "setgrace" => self.w.exec(&self.w.owner.clone(), &self.hub.distributor.clone(), &ExecuteMsg::UpdateConfig {
                owner: None, bonding_contract_addr: None, fee_collector_addr: None, grace_period: Some(Uint64::new(x as u64)), distribution_asset: None, epoch_config: None }, &[]),
            "setasset" => {
                let to = if x % 2 == 0 { "uwhale" } else { "uusdc" };
                self.w.exec(&self.w.owner.clone(), &self.hub.distributor.clone(), &ExecuteMsg::UpdateConfig {
                    owner: None, bonding_contract_addr: None, fee_collector_addr: None, grace_period: None,
                    distribution_asset: Some(AssetInfo::NativeToken { denom: to.into() }), epoch_config: None }, &[])
            }
            _ => {
                self.w.advance(x as u64, 1);
                Res::Ok(Default::default())
            }
        };
        for (k, d) in denoms.iter().enumerate() {
            let mut ev = serde_json::Map::new();
            ev.insert("run".into(), json!(if multi { run * 2 + k as u64 } else { run }));
            ev.insert("step".into(), json!(step));
            ev.insert("ev".into(), json!(op));
            ev.insert("actor".into(), json!(actor));
            ev.insert("args".into(), json!({"x": s(x), "denom": d}));
            ev.insert("pre".into(), pres[k].clone());
            ev.insert("res".into(), json!(rs.tag()));
            ev.insert("err".into(), jerr(&rs.err()));
            ev.insert("out".into(), json!({"paid": s(self.w.balance(&u, &A::Native((*d).into())).saturating_sub(wallet_before[k])),
                "received": s(self.w.balance(&self.hub.distributor, &A::Native((*d).into())).saturating_sub(dbal_before[k]))}));
            ev.insert("obs".into(), self.obs_for(d));
            if multi { self.bufs[k].push(Value::Object(ev)); } else { rec.emit(Value::Object(ev)); }
        }
    }

    /// multi mode: the per-asset projections are emitted one after the other, each as a run of its own
    pub fn flush(&mut self, rec: &mut Rec) {
        for k in 0..self.bufs.len() {
            for e in std::mem::take(&mut self.bufs[k]) { rec.emit(e); }
        }
    }
}

fn reset(rec: &mut Rec, p: &mut DistRun, seed: u64, run: u64, nops: usize, sched: Option<&str>, table: usize) {
    if p.denoms.len() > 1 {
        for (k, d) in p.denoms.clone().iter().enumerate() {
            let base = json!({"ev": "reset", "suite": "dist", "run": run * 2 + k as u64, "base_run": run, "seed": seed.to_string(), "ops": nops, "table": table,
                "extra": {"kind": "multi"}, "cfg": {"denom": d}, "obs": p.obs_for(d)});
            p.bufs[k].push(base);
        }
        return;
    }
    let mut base = json!({"ev": "reset", "suite": "dist", "run": run, "seed": seed.to_string(), "ops": nops, "table": table, "obs": p.obs()});
    if let Some(l) = sched {
        base.as_object_mut().unwrap().insert("sched".into(), serde_json::from_str::<Value>(l).unwrap());
    }
    rec.emit(base);
}

const INFLOWS: [[u128; 2]; 3] = [[0, 7], [0, 1_000_003], [0, (1u128 << 90) + 11]];
const BONDS: [u128; 3] = [1, 1_000_000, 1u128 << 80];

pub fn run_schedule(rec: &mut Rec, seed: u64, run: u64, line: &str, table: usize) {
    let v: Value = serde_json::from_str(line).unwrap();
    let ops = v["ops"].as_array().unwrap();
    let mut p = DistRun::new(1);
    if table % 4 == 3 { p.set_take_rate(333_333_333_333_333_333); }
    reset(rec, &mut p, seed, run, ops.len(), Some(line), table);
    for (i, o) in ops.iter().enumerate() {
        let op = o["op"].as_str().unwrap();
        let ui = match o["u"].as_str().unwrap() { "u1" => 0, "u2" => 1, _ => 2 };
        let x = o["x"].as_u64().unwrap();
        match op {
            "newepoch" => p.step(rec, run, i, "newepoch", i % 3, INFLOWS[table % 3][if x == 0 { 0 } else { 1 }]),
            "claim" => p.step(rec, run, i, "claim", ui, 0),
            "bond" => p.step(rec, run, i, "bond", ui, BONDS[(table + ui) % 3]),
            "setgrace" => p.step(rec, run, i, "setgrace", 0, x as u128),
            _ => {}
        }
    }
}

pub fn run_random(rec: &mut Rec, seed: u64, run: u64, nops: usize, multi: bool) {
    let mut r = gen::rng(seed, run ^ if multi { 0x4d55_4c54 } else { 0x4449_5354 });
    let grace = r.gen_range(1..=5u64);
    let mut p = DistRun::new_kind(grace, multi);
    // every third history runs with the collector's take rate switched on: the distributor then receives the forwarded
    // balance minus the DAO's cut, which is rarely a whole number
    if run % 3 == 1 { p.set_take_rate(*gen::pick(&mut r, &[300_000_000_000_000_000u128, 333_333_333_333_333_333, 100_000_000_000_000_000, 999_999_999_999_999_999, 1])); }
    reset(rec, &mut p, seed, run, nops, None, 0);
    let scale = *gen::pick(&mut r, &[1_000u128, 1_000_000_000, 1u128 << 64, 1u128 << 90]);
    let mut g = grace;
    for step in 0..nops {
        let ui = r.gen_range(0..3usize);
        match r.gen_range(0..100) {
            0..=29 => {
                let x = match r.gen_range(0..4) { 0 => 0, 1 => gen::amount(&mut r, 2000), _ => gen::amount(&mut r, scale) };
                p.step(rec, run, step, "newepoch", ui, x)
            }
            30..=59 => p.step(rec, run, step, "claim", ui, 0),
            60..=74 => { let x = gen::amount(&mut r, scale); p.step(rec, run, step, "bond", ui, x) }
            75..=84 => {
                // a third of the unbondings take out everything the address has bonded (it then counts as not bonded,
                // and a later bond starts its eligibility afresh)
                let all = {
                    let b: BondedResponse = p.w.query(&p.hub.lair, &white_whale_std::whale_lair::QueryMsg::Bonded { address: p.users[ui].to_string() }).unwrap();
                    b.total_bonded.u128()
                };
                let x = if all > 0 && r.gen_range(0..3) == 0 { all } else { gen::amount(&mut r, scale) };
                p.step(rec, run, step, "unbond", ui, x)
            }
            85..=87 if multi => { let x = r.gen_range(0..2u128); p.step(rec, run, step, "setasset", 0, x) }
            85..=90 => {
                let ng = match r.gen_range(0..5) { 0 => g.saturating_sub(1), 1 => 31, 2 => 0, _ => g + 1 };
                p.step(rec, run, step, "setgrace", 0, ng as u128);
                let cfg: Config = p.w.query(&p.hub.distributor, &QueryMsg::Config {}).unwrap();
                g = cfg.grace_period.u64();
            }
            _ => { let dt = *gen::pick(&mut r, &[1u64, 3_600_000_000_000, DAY / 2, DAY - 1]); p.step(rec, run, step, "tick", ui, dt as u128) }
        }
    }
    p.flush(rec);
}

pub fn main(seed: u64, first: u64, runs: u64, nops: usize, out: &str, sched: Option<&String>, table: Option<usize>, kind: &str) {
    let mut rec = Rec::create(out);
    if let Some(path) = sched {
        let f = std::io::BufReader::new(std::fs::File::open(path).expect("schedule file"));
        let lines: Vec<String> = f.lines().map(|l| l.unwrap()).filter(|l| !l.trim().is_empty()).collect();
        let mut run = first;
        for (i, line) in lines.iter().enumerate() {
            if runs > 0 && (i as u64) >= runs {
                break;
            }
            run_schedule(&mut rec, seed, run, line, table.unwrap_or((seed as usize) + i));
            run += 1;
        }
    } else {
        let multi = kind == "multi";
        for run in first..first + runs {
            run_random(&mut rec, seed, run, nops, multi);
        }
    }
    let n = rec.finish();
    eprintln!("dist: {n} lines -> {out}");
}
