//! A scripted adversary contract (lives only in the harness): its `Run` message interprets a
//! script of atoms by emitting the corresponding messages, which the chain model executes
//! depth-first in order.  Used as the flash-loan borrower (C05/C06), as "sibling contract"
//! caller (C16) and as recording hook receiver.
use cosmwasm_schema::cw_serde;
use cosmwasm_std::{
    coins, to_json_binary, Addr, BankMsg, Binary, CosmosMsg, Deps, DepsMut, Empty, Env, MessageInfo,
    Response, StdError, StdResult, Uint128, WasmMsg,
};
use cw_multi_test::{Contract, ContractWrapper};
use cw_storage_plus::Item;
use serde_json::{json, Value};

use white_whale_std::pool_network::asset::AssetInfo;

#[cw_serde]
pub struct AdvInstantiate {
    pub vault: String,
    pub asset: AssetInfo,
    pub lp_token: String,
}

#[cw_serde]
pub enum Atom {
    /// transfer `x` of the vault asset to the target (vault or router)
    Repay { x: Uint128 },
    Fail {},
    Nothing {},
    Deposit { x: Uint128 },
    Withdraw { x: Uint128 },
    Collect {},
    /// send the vault a forged `Callback(AfterTrade { old_balance, loan_amount })` (the vault's message to itself)
    Callback { old: Uint128, x: Uint128 },
    /// as the vault's owner (when the vault has been handed to this contract): set the pause switches
    Pause { d: Option<bool>, w: Option<bool>, l: Option<bool> },
    /// take a direct flash loan of `x` from the vault with call-back `Run { sub, target = vault }`
    Loan { x: Uint128, sub: Vec<Atom> },
}

#[cw_serde]
pub enum AdvExecute {
    Run { script: Vec<Atom>, target: String },
    /// forward an arbitrary message (the adversary as "sibling contract" caller)
    Forward { msg: CosmosMsg },
}

const CFG: Item<AdvInstantiate> = Item::new("cfg");

fn instantiate(deps: DepsMut, _e: Env, _i: MessageInfo, msg: AdvInstantiate) -> StdResult<Response> {
    CFG.save(deps.storage, &msg)?;
    Ok(Response::new())
}

fn send_asset(asset: &AssetInfo, to: &str, x: Uint128) -> StdResult<CosmosMsg> {
    Ok(match asset {
        AssetInfo::NativeToken { denom } => {
            BankMsg::Send { to_address: to.to_string(), amount: coins(x.u128(), denom) }.into()
        }
        AssetInfo::Token { contract_addr } => WasmMsg::Execute {
            contract_addr: contract_addr.clone(),
            msg: to_json_binary(&cw20::Cw20ExecuteMsg::Transfer { recipient: to.to_string(), amount: x })?,
            funds: vec![],
        }
        .into(),
    })
}

fn execute(deps: DepsMut, _env: Env, _info: MessageInfo, msg: AdvExecute) -> StdResult<Response> {
    let cfg = CFG.load(deps.storage)?;
    match msg {
        AdvExecute::Forward { msg } => Ok(Response::new().add_message(msg)),
        AdvExecute::Run { script, target } => {
            let mut msgs: Vec<CosmosMsg> = vec![];
            for at in script {
                match at {
                    Atom::Nothing {} => {}
                    Atom::Fail {} => return Err(StdError::generic_err("adversary: fail")),
                    Atom::Repay { x } => msgs.push(send_asset(&cfg.asset, &target, x)?),
                    Atom::Deposit { x } => {
                        let funds = match &cfg.asset {
                            AssetInfo::NativeToken { denom } => coins(x.u128(), denom),
                            AssetInfo::Token { contract_addr } => {
                                // exact allowance first
                                msgs.push(
                                    WasmMsg::Execute {
                                        contract_addr: contract_addr.clone(),
                                        msg: to_json_binary(&cw20::Cw20ExecuteMsg::IncreaseAllowance {
                                            spender: cfg.vault.clone(),
                                            amount: x,
                                            expires: None,
                                        })?,
                                        funds: vec![],
                                    }
                                    .into(),
                                );
                                vec![]
                            }
                        };
                        msgs.push(
                            WasmMsg::Execute {
                                contract_addr: cfg.vault.clone(),
                                msg: to_json_binary(&white_whale_std::vault_network::vault::ExecuteMsg::Deposit {
                                    amount: x,
                                })?,
                                funds,
                            }
                            .into(),
                        );
                    }
                    Atom::Withdraw { x } => msgs.push(
                        WasmMsg::Execute {
                            contract_addr: cfg.lp_token.clone(),
                            msg: to_json_binary(&cw20::Cw20ExecuteMsg::Send {
                                contract: cfg.vault.clone(),
                                amount: x,
                                msg: to_json_binary(&white_whale_std::vault_network::vault::Cw20HookMsg::Withdraw {})?,
                            })?,
                            funds: vec![],
                        }
                        .into(),
                    ),
                    Atom::Callback { old, x } => msgs.push(
                        WasmMsg::Execute {
                            contract_addr: cfg.vault.clone(),
                            msg: to_json_binary(&white_whale_std::vault_network::vault::ExecuteMsg::Callback(
                                white_whale_std::vault_network::vault::CallbackMsg::AfterTrade { old_balance: old, loan_amount: x },
                            ))?,
                            funds: vec![],
                        }
                        .into(),
                    ),
                    Atom::Pause { d, w, l } => msgs.push(
                        WasmMsg::Execute {
                            contract_addr: cfg.vault.clone(),
                            msg: to_json_binary(&white_whale_std::vault_network::vault::ExecuteMsg::UpdateConfig(
                                white_whale_std::vault_network::vault::UpdateConfigParams { flash_loan_enabled: l, deposit_enabled: d, withdraw_enabled: w,
                                    new_owner: None, new_vault_fees: None, new_fee_collector_addr: None },
                            ))?,
                            funds: vec![],
                        }
                        .into(),
                    ),
                    Atom::Collect {} => msgs.push(
                        WasmMsg::Execute {
                            contract_addr: cfg.vault.clone(),
                            msg: to_json_binary(
                                &white_whale_std::vault_network::vault::ExecuteMsg::CollectProtocolFees {},
                            )?,
                            funds: vec![],
                        }
                        .into(),
                    ),
                    Atom::Loan { x, sub } => msgs.push(
                        WasmMsg::Execute {
                            contract_addr: cfg.vault.clone(),
                            msg: to_json_binary(&white_whale_std::vault_network::vault::ExecuteMsg::FlashLoan {
                                amount: x,
                                msg: to_json_binary(&AdvExecute::Run { script: sub, target: cfg.vault.clone() })?,
                            })?,
                            funds: vec![],
                        }
                        .into(),
                    ),
                }
            }
            Ok(Response::new().add_messages(msgs))
        }
    }
}

fn query(_deps: Deps, _env: Env, _msg: Empty) -> StdResult<Binary> {
    to_json_binary(&Empty {})
}

pub fn contract() -> Box<dyn Contract<Empty>> {
    Box::new(ContractWrapper::new(execute, instantiate, query))
}

pub fn atom_json(a: &Atom) -> Value {
    match a {
        Atom::Repay { x } => json!({"a": "repay", "x": x.to_string()}),
        Atom::Fail {} => json!({"a": "fail"}),
        Atom::Nothing {} => json!({"a": "nothing"}),
        Atom::Deposit { x } => json!({"a": "deposit", "x": x.to_string()}),
        Atom::Withdraw { x } => json!({"a": "withdraw", "x": x.to_string()}),
        Atom::Collect {} => json!({"a": "collect"}),
        Atom::Pause { d, w, l } => { let j = |x: &Option<bool>| match x { None => "none", Some(true) => "on", Some(false) => "off" };
            json!({"a": "pause", "d": j(d), "w": j(w), "l": j(l)}) }
        Atom::Callback { old, x } => json!({"a": "fcb", "old": old.to_string(), "x": x.to_string()}),
        Atom::Loan { x, sub } => json!({"a": "loan", "x": x.to_string(), "sub": script_json(sub)}),
    }
}

pub fn script_json(s: &[Atom]) -> Value {
    Value::Array(s.iter().map(atom_json).collect())
}

pub fn new_adversary(w: &mut crate::world::World, vault: &Addr, asset: &AssetInfo, lp: &Addr) -> Addr {
    let code = w.app.store_code(contract());
    let a = cw_multi_test::Executor::instantiate_contract(
        &mut w.app,
        code,
        w.owner.clone(),
        &AdvInstantiate { vault: vault.to_string(), asset: asset.clone(), lp_token: lp.to_string() },
        &[],
        "adversary",
        None,
    )
    .unwrap();
    w.register("adv", &a);
    a
}
