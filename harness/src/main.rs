fn main(){}
