//! wwv — conformance harness: drives the real white-whale-core contracts (cw-multi-test)
//! and records ndjson traces that TLC validates against the TLA+ specifications in ../spec.
mod adversary;
mod full;
mod gen;
mod variants;
mod hookrecv;
mod hub;
mod rec;
mod suites;
mod world;

use std::collections::HashMap;

fn main() {
    let args: Vec<String> = std::env::args().collect();
    if args.len() < 2 {
        eprintln!("usage: wwv <suite> [--seed N] [--runs N] [--ops N] [--out FILE] [--sched FILE]");
        std::process::exit(2);
    }
    let suite = args[1].clone();
    let mut kv: HashMap<String, String> = HashMap::new();
    let mut i = 2;
    while i + 1 < args.len() {
        kv.insert(args[i].trim_start_matches("--").to_string(), args[i + 1].clone());
        i += 2;
    }
    let get = |k: &str, d: u64| kv.get(k).and_then(|v| v.parse::<u64>().ok()).unwrap_or(d);
    let seed = get("seed", 1);
    let runs = get("runs", 10);
    let ops = get("ops", 25) as usize;
    let first = get("first", 0);
    let out = kv.get("out").cloned().unwrap_or_else(|| "trace.ndjson".to_string());
    world::silence_panics();
    match suite.as_str() {
        "pool" => suites::pool::main(seed, first, runs, ops, &out, kv.get("kind").map(|s| s.as_str()).unwrap_or("cp")),
        "vault" => suites::vault::main(seed, first, runs, ops, &out),
        "lair" => suites::lair::main(seed, first, runs, ops, &out, kv.get("sched"), kv.get("table").and_then(|t| t.parse().ok())),
        "epochs" => suites::epochs::main(seed, first, runs, ops, &out, kv.get("kind").map(|s| s.as_str()).unwrap_or("manager"), kv.get("sched"), kv.get("table").and_then(|t| t.parse().ok())),
        "fulltest" => { let f = full::Full::new(true); println!("full world ok: {} accounts, digest {}", f.w.accounts.len(), f.w.digest()); }
        "variants" => { for (c, vs) in variants::all() { println!("{c}: {}", vs.join(" ")); } }
        "access" => suites::access::main(seed, first, runs, &out, kv.get("sched")),
        "toggles" => suites::toggles::main(seed, first, runs, &out, kv.get("sched")),
        "config" => suites::config::main(seed, first, runs, &out, kv.get("sched")),
        "registry" => suites::registry::main(seed, first, runs, &out, kv.get("sched")),
        "dist" => suites::dist::main(seed, first, runs, ops, &out, kv.get("sched"), kv.get("table").and_then(|t| t.parse().ok()), kv.get("kind").map(|s| s.as_str()).unwrap_or("single")),
        "pipeline" => suites::pipeline::main(seed, first, runs, &out, kv.get("sched")),
        "incentive" => suites::incentive::main(seed, first, runs, ops, &out, kv.get("sched"), kv.get("table").and_then(|t| t.parse().ok())),
        "trio" => suites::trio::main(seed, first, runs, ops, &out),
        "route" => suites::route::main(seed, first, runs, ops, &out),
        "helper" => suites::helper::main(seed, first, runs, ops, &out),
        "math" => suites::math::main(seed, first, runs, ops, &out, kv.get("kind").map(|s| s.as_str()).unwrap_or("all")),
        _ => {
            eprintln!("unknown suite {suite}");
            std::process::exit(2);
        }
    }
}
