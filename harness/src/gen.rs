//! Boundary-biased generators for amounts and decimals; all randomness from one seeded rng.
use rand::rngs::StdRng;
use rand::{Rng, SeedableRng};

pub fn rng(seed: u64, stream: u64) -> StdRng {
    StdRng::seed_from_u64(seed.wrapping_mul(0x9E37_79B9_7F4A_7C15).wrapping_add(stream))
}

/// amount in [1, max] biased to powers of two +-1, powers of ten +-1 and the contract thresholds
pub fn amount(r: &mut StdRng, max: u128) -> u128 {
    let max = max.max(1);
    let v = match r.gen_range(0..10) {
        0 => {
            let k = r.gen_range(0..128u32);
            let b = 1u128 << k;
            match r.gen_range(0..3) { 0 => b.saturating_sub(1), 1 => b, _ => b.saturating_add(1) }
        }
        1 => {
            let k = r.gen_range(0..38u32);
            let b = 10u128.pow(k);
            match r.gen_range(0..3) { 0 => b.saturating_sub(1), 1 => b, _ => b.saturating_add(1) }
        }
        2 => *[1u128, 2, 3, 999, 1000, 1001, 1999, 2000, 2001].get(r.gen_range(0..9)).unwrap(),
        3 => max,
        4 => max - r.gen_range(0..3u128).min(max - 1),
        5 | 6 => {
            // log-uniform
            let bits = 128 - max.leading_zeros();
            let k = r.gen_range(1..=bits.max(1));
            let hi = if k >= 128 { u128::MAX } else { (1u128 << k) - 1 };
            r.gen_range(1..=hi.max(1))
        }
        _ => r.gen_range(1..=max),
    };
    v.clamp(1, max)
}

/// log-uniform amount in [lo, hi]
pub fn log_uniform(r: &mut StdRng, lo: u128, hi: u128) -> u128 {
    let lo = lo.max(1);
    let hi = hi.max(lo);
    let lb = 128 - lo.leading_zeros();
    let hb = 128 - hi.leading_zeros();
    let k = r.gen_range(lb..=hb);
    let top = if k >= 128 { u128::MAX } else { (1u128 << k) - 1 };
    let bot = if k <= 1 { 1 } else { 1u128 << (k - 1) };
    r.gen_range(bot.max(lo)..=top.min(hi).max(bot.max(lo)))
}

/// fee share atomics (18 decimals) in [0, 1e18): grid values and 18-significant-digit values
pub fn share_atomics(r: &mut StdRng, max_atomics: u128) -> u128 {
    let v = match r.gen_range(0..8) {
        0 => 0,
        1 => 1,
        2 => *[1_000_000_000_000_000u128, 3_000_000_000_000_000, 10_000_000_000_000_000,
               50_000_000_000_000_000, 100_000_000_000_000_000, 300_000_000_000_000_000]
            .get(r.gen_range(0..6)).unwrap(),
        3 => max_atomics,
        4 => r.gen_range(0..=max_atomics),
        5 => r.gen_range(0..=max_atomics.min(20_000_000_000_000_000)),
        _ => (r.gen_range(0..=1000u128) * 1_000_000_000_000_000).min(max_atomics),
    };
    v.min(max_atomics)
}

pub fn pick<'a, T>(r: &mut StdRng, xs: &'a [T]) -> &'a T {
    &xs[r.gen_range(0..xs.len())]
}
