//! ExecuteMsg variant discovery from the JSON schema (schemars, derived by cw_serde).
use schemars::schema::{RootSchema, Schema, SchemaObject};
use schemars::schema_for;

fn names(root: RootSchema) -> Vec<String> {
    let mut out = vec![];
    let subs = root.schema.subschemas.as_ref().and_then(|s| s.one_of.clone()).unwrap_or_default();
    for s in subs {
        if let Schema::Object(SchemaObject { object: Some(o), .. }) = &s {
            for k in o.required.iter() {
                out.push(k.clone());
            }
        } else if let Schema::Object(SchemaObject { enum_values: Some(vs), .. }) = &s {
            for v in vs {
                if let Some(x) = v.as_str() {
                    out.push(x.to_string());
                }
            }
        }
    }
    out.sort();
    out.dedup();
    out
}

pub fn all() -> Vec<(&'static str, Vec<String>)> {
    vec![
        ("pair", names(schema_for!(white_whale_std::pool_network::pair::ExecuteMsg))),
        ("trio", names(schema_for!(white_whale_std::pool_network::trio::ExecuteMsg))),
        ("pool_factory", names(schema_for!(white_whale_std::pool_network::factory::ExecuteMsg))),
        ("pool_router", names(schema_for!(white_whale_std::pool_network::router::ExecuteMsg))),
        ("incentive", names(schema_for!(white_whale_std::pool_network::incentive::ExecuteMsg))),
        ("incentive_factory", names(schema_for!(white_whale_std::pool_network::incentive_factory::ExecuteMsg))),
        ("frontend_helper", names(schema_for!(white_whale_std::pool_network::frontend_helper::ExecuteMsg))),
        ("fee_collector", names(schema_for!(white_whale_std::fee_collector::ExecuteMsg))),
        ("fee_distributor", names(schema_for!(white_whale_std::fee_distributor::ExecuteMsg))),
        ("whale_lair", names(schema_for!(white_whale_std::whale_lair::ExecuteMsg))),
        ("vault", names(schema_for!(white_whale_std::vault_network::vault::ExecuteMsg))),
        ("vault_factory", names(schema_for!(white_whale_std::vault_network::vault_factory::ExecuteMsg))),
        ("vault_router", names(schema_for!(white_whale_std::vault_network::vault_router::ExecuteMsg))),
        ("epoch_manager", names(schema_for!(white_whale_std::epoch_manager::epoch_manager::ExecuteMsg))),
    ]
}
