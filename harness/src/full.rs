//! The complete liquidity hub with children: two pairs, a trio, a vault, an incentive contract,
//! the frontend helper and the epoch manager, with liquidity, as used by the access / toggle /
//! configuration / registry suites.
use cosmwasm_std::{coin, Addr, Coin, Timestamp, Uint128, Uint64};

use white_whale_std::epoch_manager::epoch_manager::{EpochConfig, EpochV2};
use white_whale_std::fee::Fee;
use white_whale_std::pool_network::asset::{Asset, AssetInfo, PairType};

use crate::adversary;
use crate::hub::{Hub, DAY};
use crate::suites::vault::vault_fee;
use crate::world::*;

pub struct Full {
    pub w: World,
    pub hub: Hub,
    pub whale: A,
    pub usdc: A,
    pub atom: A,
    pub tka: A,
    pub pair1: Addr,     // uwhale / uusdc  (constant product)
    pub pair1_lp: Addr,
    pub pair2: Addr,     // uusdc / tokena  (constant product)
    pub pair2_lp: Addr,
    pub trio: Addr,      // uwhale / uusdc / uatom
    pub trio_lp: Addr,
    pub vault: Addr,     // uwhale
    pub vault_lp: Addr,
    pub incentive_factory: Addr,
    pub incentive: Addr, // over pair1's LP token
    pub helper: Addr,
    pub epoch_manager: Addr,
    pub adv: Addr,
    pub owner: Addr,
    pub newowner: Addr,
    pub user: Addr,
    pub lp_user: Addr,
}

pub const ONE: u128 = 1_000_000_000_000_000_000;

pub fn trio_fee(p: u128, s: u128, b: u128) -> white_whale_std::pool_network::trio::PoolFee {
    white_whale_std::pool_network::trio::PoolFee {
        protocol_fee: Fee { share: dec_atomics(p) },
        swap_fee: Fee { share: dec_atomics(s) },
        burn_fee: Fee { share: dec_atomics(b) },
    }
}

impl World {
    pub fn create_trio(
        &mut self,
        factory: &Addr,
        assets: [&A; 3],
        fees: white_whale_std::pool_network::trio::PoolFee,
        amp: u64,
        name: &str,
    ) -> Result<(Addr, Addr), String> {
        let infos = [assets[0].info(), assets[1].info(), assets[2].info()];
        let r = self.exec(
            &self.owner.clone(),
            factory,
            &white_whale_std::pool_network::factory::ExecuteMsg::CreateTrio {
                asset_infos: infos.clone(),
                pool_fees: fees,
                amp_factor: amp,
                token_factory_lp: false,
            },
            &[],
        );
        if !r.is_ok() {
            return Err(r.err());
        }
        let info: white_whale_std::pool_network::asset::TrioInfo = self
            .query(factory, &white_whale_std::pool_network::factory::QueryMsg::Trio { asset_infos: infos })
            .map_err(|e| e.to_string())?;
        let trio = Addr::unchecked(info.contract_addr);
        let lp = match info.liquidity_token {
            AssetInfo::Token { contract_addr } => Addr::unchecked(contract_addr),
            AssetInfo::NativeToken { denom } => Addr::unchecked(denom),
        };
        self.register(name, &trio);
        self.register(&format!("{name}_lp"), &lp);
        self.tokens.push(lp.clone());
        Ok((trio, lp))
    }

    pub fn new_incentive_factory(&mut self, collector: &Addr, distributor: &Addr, fee: Asset) -> Addr {
        let a = cw_multi_test::Executor::instantiate_contract(
            &mut self.app,
            self.codes.incentive_factory,
            self.owner.clone(),
            &white_whale_std::pool_network::incentive_factory::InstantiateMsg {
                fee_collector_addr: collector.to_string(),
                fee_distributor_addr: distributor.to_string(),
                create_flow_fee: fee,
                max_concurrent_flows: 5,
                incentive_code_id: self.codes.incentive,
                max_flow_epoch_buffer: 14,
                min_unbonding_duration: 86_400,
                max_unbonding_duration: 31_536_000,
            },
            &[],
            "incentive_factory",
            None,
        )
        .unwrap();
        self.register("incentive_factory", &a);
        a
    }

    pub fn create_incentive(&mut self, factory: &Addr, lp: &AssetInfo, name: &str) -> Result<Addr, String> {
        let r = self.exec(
            &self.owner.clone(),
            factory,
            &white_whale_std::pool_network::incentive_factory::ExecuteMsg::CreateIncentive { lp_asset: lp.clone() },
            &[],
        );
        if !r.is_ok() {
            return Err(r.err());
        }
        let a: Option<Addr> = self
            .query(factory, &white_whale_std::pool_network::incentive_factory::QueryMsg::Incentive { lp_asset: lp.clone() })
            .map_err(|e| e.to_string())?;
        let a = a.ok_or("incentive not registered")?;
        self.register(name, &a);
        Ok(a)
    }

    pub fn provide_pair(&mut self, who: &Addr, pair: &Addr, assets: [&A; 2], amounts: [u128; 2]) -> Res {
        let mut funds: Vec<Coin> = vec![];
        for i in 0..2 {
            match assets[i] {
                A::Native(d) => funds.push(coin(amounts[i], d.clone())),
                A::Cw20(t) => self.set_allowance(who, t, pair, amounts[i]),
            }
        }
        funds.sort_by(|a, b| a.denom.cmp(&b.denom));
        self.exec(
            who,
            pair,
            &white_whale_std::pool_network::pair::ExecuteMsg::ProvideLiquidity {
                assets: [assets[0].asset(amounts[0]), assets[1].asset(amounts[1])],
                slippage_tolerance: None,
                receiver: None,
            },
            &funds,
        )
    }

    pub fn provide_trio(&mut self, who: &Addr, trio: &Addr, assets: [&A; 3], amounts: [u128; 3]) -> Res {
        self.provide_trio_slip(who, trio, assets, amounts, None)
    }

    /// with a slippage tolerance given as decimal atomics
    pub fn provide_trio_slip(&mut self, who: &Addr, trio: &Addr, assets: [&A; 3], amounts: [u128; 3], slip: Option<u128>) -> Res {
        let mut funds: Vec<Coin> = vec![];
        for i in 0..3 {
            match assets[i] {
                A::Native(d) => funds.push(coin(amounts[i], d.clone())),
                A::Cw20(t) => self.set_allowance(who, t, trio, amounts[i]),
            }
        }
        funds.sort_by(|a, b| a.denom.cmp(&b.denom));
        self.exec(
            who,
            trio,
            &white_whale_std::pool_network::trio::ExecuteMsg::ProvideLiquidity {
                assets: [assets[0].asset(amounts[0]), assets[1].asset(amounts[1]), assets[2].asset(amounts[2])],
                slippage_tolerance: slip.map(|x| cosmwasm_std::Decimal::new(cosmwasm_std::Uint128::new(x))),
                receiver: None,
            },
            &funds,
        )
    }
}

impl Full {
    /// `liquidity`: whether pools and vault are seeded
    pub fn new(liquidity: bool) -> Full {
        let mut w = World::new();
        let now = w.now_nanos();
        let whale = w.add_denom("uwhale");
        let usdc = w.add_denom("uusdc");
        let atom = w.add_denom("uatom");
        let hub = w.new_hub(3, DAY, now + DAY, "uwhale", &["uwhale", "ubtc"], 1_000_000_000_000);
        w.add_denom("ubtc");
        // the router's route management is guarded by the wasm admin: re-instantiate with an admin
        let pool_router = cw_multi_test::Executor::instantiate_contract(
            &mut w.app,
            w.codes.pool_router,
            w.owner.clone(),
            &white_whale_std::pool_network::router::InstantiateMsg { terraswap_factory: hub.pool_factory.to_string() },
            &[],
            "pool_router_admin",
            Some(w.owner.to_string()),
        )
        .unwrap();
        w.register("pool_router2", &pool_router);
        let hub = Hub { pool_router, ..hub };
        let tka = w.add_cw20("tokena", "TKA", 6);
        for d in ["uwhale", "uusdc", "uatom"] {
            w.factory_add_native(&hub.pool_factory, d, 6);
        }
        let pf = pool_fee(dec_atomics(ONE / 1000), dec_atomics(ONE / 500), dec_atomics(0));
        let (pair1, pair1_lp) = w.create_pair(&hub.pool_factory, [&whale, &usdc], pf.clone(), PairType::ConstantProduct, "pair1").unwrap();
        let (pair2, pair2_lp) = w.create_pair(&hub.pool_factory, [&usdc, &tka], pf, PairType::ConstantProduct, "pair2").unwrap();
        let (trio, trio_lp) = w.create_trio(&hub.pool_factory, [&whale, &usdc, &atom], trio_fee(ONE / 1000, ONE / 500, 0), 100, "trio").unwrap();
        let (vault, vault_lp) = w.create_vault(&hub.vault_factory, &whale, vault_fee(ONE / 1000, ONE / 1000, 0), "vault").unwrap();
        let incentive_factory = w.new_incentive_factory(&hub.collector, &hub.distributor, whale.asset(1000));
        let incentive = w
            .create_incentive(&incentive_factory, &AssetInfo::Token { contract_addr: pair1_lp.to_string() }, "incentive")
            .unwrap();
        let helper = cw_multi_test::Executor::instantiate_contract(
            &mut w.app,
            w.codes.frontend_helper,
            w.owner.clone(),
            &white_whale_std::pool_network::frontend_helper::InstantiateMsg { incentive_factory: incentive_factory.to_string() },
            &[],
            "frontend_helper",
            None,
        )
        .unwrap();
        w.register("frontend_helper", &helper);
        let epoch_manager = cw_multi_test::Executor::instantiate_contract(
            &mut w.app,
            w.codes.epoch_manager,
            w.owner.clone(),
            &white_whale_std::epoch_manager::epoch_manager::InstantiateMsg {
                start_epoch: EpochV2 { id: 0, start_time: Timestamp::from_nanos(now + DAY) },
                epoch_config: EpochConfig { duration: Uint64::new(DAY), genesis_epoch: Uint64::new(now + DAY) },
            },
            &[],
            "epoch_manager",
            None,
        )
        .unwrap();
        w.register("epoch_manager", &epoch_manager);
        let adv = adversary::new_adversary(&mut w, &vault, &whale.info(), &vault_lp);
        let owner = w.owner.clone();
        let newowner = w.add_account("newowner");
        let user = w.add_account("user1");
        let lp_user = w.add_account("lpuser");
        for who in [&user, &lp_user, &adv, &newowner, &owner] {
            for a in [&whale, &usdc, &atom, &tka] {
                w.fund(who, a, 1_000_000_000_000_000);
            }
            w.mint_native(who, "ubtc", 1_000_000_000_000);
        }
        let mut f = Full {
            w, hub, whale, usdc, atom, tka, pair1, pair1_lp, pair2, pair2_lp, trio, trio_lp, vault, vault_lp,
            incentive_factory, incentive, helper, epoch_manager, adv, owner, newowner, user, lp_user,
        };
        if liquidity {
            f.seed_liquidity();
        }
        f
    }

    pub fn seed_liquidity(&mut self) {
        let lp = self.lp_user.clone();
        let (whale, usdc, atom, tka) = (self.whale.clone(), self.usdc.clone(), self.atom.clone(), self.tka.clone());
        let r = self.w.provide_pair(&lp, &self.pair1.clone(), [&whale, &usdc], [1_000_000_000, 2_000_000_000]);
        assert!(r.is_ok(), "{}", r.err());
        let r = self.w.provide_pair(&lp, &self.pair2.clone(), [&usdc, &tka], [3_000_000_000, 1_500_000_000]);
        assert!(r.is_ok(), "{}", r.err());
        let r = self.w.provide_trio(&lp, &self.trio.clone(), [&whale, &usdc, &atom], [1_000_000_000, 1_000_000_000, 1_000_000_000]);
        assert!(r.is_ok(), "{}", r.err());
        let r = self.w.exec(
            &lp,
            &self.vault.clone(),
            &white_whale_std::vault_network::vault::ExecuteMsg::Deposit { amount: Uint128::new(5_000_000_000) },
            &[coin(5_000_000_000, "uwhale")],
        );
        assert!(r.is_ok(), "{}", r.err());
    }
}
