//! The chain model the real contracts run in: one cw-multi-test `App` with the
//! repository's contracts stored as native `ContractWrapper`s, a registry of known
//! accounts (for balance snapshots and state digests) and helpers shared by all suites.
#![allow(dead_code)]

use std::collections::hash_map::DefaultHasher;
use std::hash::{Hash, Hasher};
use std::panic::{catch_unwind, AssertUnwindSafe};

use cosmwasm_std::{
    coin, to_json_binary, Addr, Coin, Decimal, Empty, Timestamp, Uint128,
};
use cw20::{Cw20Coin, Cw20ExecuteMsg, Cw20QueryMsg, MinterResponse};
use cw_multi_test::{App, AppResponse, BankSudo, ContractWrapper, Executor, SudoMsg};
use serde::de::DeserializeOwned;
use serde::Serialize;
use serde_json::{json, Value};

use white_whale_std::fee::Fee;
use white_whale_std::pool_network;
use white_whale_std::pool_network::asset::{Asset, AssetInfo, PairType};
use white_whale_std::pool_network::pair::PoolFee;

/// An asset of the world: a bank denom or a cw20 contract.
#[derive(Clone, Debug, PartialEq, Eq)]
pub enum A {
    Native(String),
    Cw20(Addr),
}

impl A {
    pub fn info(&self) -> AssetInfo {
        match self {
            A::Native(d) => AssetInfo::NativeToken { denom: d.clone() },
            A::Cw20(a) => AssetInfo::Token { contract_addr: a.to_string() },
        }
    }
    pub fn asset(&self, amount: u128) -> Asset {
        Asset { info: self.info(), amount: Uint128::new(amount) }
    }
    pub fn is_native(&self) -> bool {
        matches!(self, A::Native(_))
    }
    pub fn id(&self) -> String {
        match self {
            A::Native(d) => d.clone(),
            A::Cw20(a) => a.to_string(),
        }
    }
    pub fn kind(&self) -> &'static str {
        if self.is_native() { "native" } else { "cw20" }
    }
}

pub struct Codes {
    pub token: u64,
    pub pair: u64,
    pub trio: u64,
    pub pool_factory: u64,
    pub pool_router: u64,
    pub fee_collector: u64,
    pub fee_distributor: u64,
    pub fee_distributor_mock: u64,
    pub whale_lair: u64,
    pub vault: u64,
    pub vault_factory: u64,
    pub vault_router: u64,
    pub incentive: u64,
    pub incentive_factory: u64,
    pub frontend_helper: u64,
    pub epoch_manager: u64,
}

pub struct World {
    pub app: App,
    pub codes: Codes,
    /// every account / contract whose balances and storage are part of the digest
    pub accounts: Vec<(String, Addr)>,
    /// every native denom in play
    pub denoms: Vec<String>,
    /// every cw20 token contract in play (incl. LP tokens)
    pub tokens: Vec<Addr>,
    pub owner: Addr,
    /// CreatePair spells cw20 addresses in upper case (a valid spelling of the same address)
    pub spell_upper: bool,
}

/// Outcome of a top-level message
pub enum Res {
    Ok(AppResponse),
    Rejected(String),
    Aborted(String),
}

impl Res {
    pub fn tag(&self) -> &'static str {
        match self {
            Res::Ok(_) => "ok",
            Res::Rejected(_) => "rejected",
            Res::Aborted(_) => "aborted",
        }
    }
    pub fn is_ok(&self) -> bool {
        matches!(self, Res::Ok(_))
    }
    pub fn err(&self) -> String {
        match self {
            Res::Ok(_) => String::new(),
            Res::Rejected(e) => e.clone(),
            Res::Aborted(e) => format!("PANIC: {e}"),
        }
    }
    /// first attribute `key` of the first wasm event carrying `action == action`
    pub fn attr(&self, action: &str, key: &str) -> Option<String> {
        if let Res::Ok(r) = self {
            for ev in &r.events {
                if ev.ty == "wasm"
                    && ev.attributes.iter().any(|a| a.key == "action" && a.value == action)
                {
                    if let Some(a) = ev.attributes.iter().find(|a| a.key == key) {
                        return Some(a.value.clone());
                    }
                }
            }
        }
        None
    }
    /// every token movement of the response, in order: (denom or cw20 contract, recipient, amount)
    pub fn transfers(&self) -> Vec<(String, String, u128)> {
        let mut out = vec![];
        if let Res::Ok(r) = self {
            for ev in &r.events {
                let get = |k: &str| ev.attributes.iter().find(|a| a.key == k).map(|a| a.value.clone());
                if ev.ty == "transfer" {
                    if let (Some(to), Some(amount)) = (get("recipient"), get("amount")) {
                        for c in amount.split(',') {
                            let digits: String = c.chars().take_while(|ch| ch.is_ascii_digit()).collect();
                            if let Ok(x) = digits.parse::<u128>() { out.push((c[digits.len()..].to_string(), to.clone(), x)); }
                        }
                    }
                } else if ev.ty == "wasm" && get("action").as_deref() == Some("transfer") {
                    if let (Some(c), Some(to), Some(x)) = (get("_contract_addr"), get("to"), get("amount").and_then(|x| x.parse::<u128>().ok())) {
                        out.push((c, to, x));
                    }
                }
            }
        }
        out
    }
    pub fn any_attr(&self, key: &str) -> Option<String> {
        if let Res::Ok(r) = self {
            for ev in &r.events {
                if let Some(a) = ev.attributes.iter().find(|a| a.key == key) {
                    return Some(a.value.clone());
                }
            }
        }
        None
    }
}

pub fn silence_panics() {
    // panics inside contract code are data (caught by `exec`); panics of the harness itself are bugs
    std::panic::set_hook(Box::new(|info| {
        if let Some(l) = info.location() {
            if l.file().starts_with("src/") {
                eprintln!("harness panic at {}:{}: {}", l.file(), l.line(), info);
            }
        }
    }));
}

fn panic_text(e: Box<dyn std::any::Any + Send>) -> String {
    if let Some(s) = e.downcast_ref::<&str>() {
        s.to_string()
    } else if let Some(s) = e.downcast_ref::<String>() {
        s.clone()
    } else {
        "panic".to_string()
    }
}

pub fn dec(s: &str) -> Decimal {
    s.parse::<Decimal>().unwrap()
}

/// Decimal from its 18-decimal atomics
pub fn dec_atomics(a: u128) -> Decimal {
    Decimal::new(Uint128::new(a))
}

pub fn pool_fee(protocol: Decimal, swap: Decimal, burn: Decimal) -> PoolFee {
    PoolFee {
        protocol_fee: Fee { share: protocol },
        swap_fee: Fee { share: swap },
        burn_fee: Fee { share: burn },
    }
}

impl World {
    pub fn new() -> World {
        let mut app = App::default();
        app.update_block(|b| {
            b.time = Timestamp::from_nanos(1_700_000_000_000_000_000);
            b.height = 1000;
        });
        let codes = Codes {
            token: app.store_code(Box::new(ContractWrapper::new_with_empty(
                terraswap_token::contract::execute,
                terraswap_token::contract::instantiate,
                terraswap_token::contract::query,
            ))),
            pair: app.store_code(Box::new(
                ContractWrapper::new_with_empty(
                    terraswap_pair::contract::execute,
                    terraswap_pair::contract::instantiate,
                    terraswap_pair::contract::query,
                )
                .with_reply(terraswap_pair::contract::reply)
                .with_migrate(terraswap_pair::contract::migrate),
            )),
            trio: app.store_code(Box::new(
                ContractWrapper::new_with_empty(
                    stableswap_3pool::contract::execute,
                    stableswap_3pool::contract::instantiate,
                    stableswap_3pool::contract::query,
                )
                .with_reply(stableswap_3pool::contract::reply)
                .with_migrate(stableswap_3pool::contract::migrate),
            )),
            pool_factory: app.store_code(Box::new(
                ContractWrapper::new_with_empty(
                    terraswap_factory::contract::execute,
                    terraswap_factory::contract::instantiate,
                    terraswap_factory::contract::query,
                )
                .with_reply(terraswap_factory::contract::reply)
                .with_migrate(terraswap_factory::contract::migrate),
            )),
            pool_router: app.store_code(Box::new(
                ContractWrapper::new_with_empty(
                    terraswap_router::contract::execute,
                    terraswap_router::contract::instantiate,
                    terraswap_router::contract::query,
                )
                .with_migrate(terraswap_router::contract::migrate),
            )),
            fee_collector: app.store_code(Box::new(
                ContractWrapper::new_with_empty(
                    fee_collector::contract::execute,
                    fee_collector::contract::instantiate,
                    fee_collector::contract::query,
                )
                .with_reply(fee_collector::contract::reply)
                .with_migrate(fee_collector::contract::migrate),
            )),
            fee_distributor: app.store_code(Box::new(
                ContractWrapper::new_with_empty(
                    fee_distributor::contract::execute,
                    fee_distributor::contract::instantiate,
                    fee_distributor::contract::query,
                )
                .with_reply(fee_distributor::contract::reply)
                .with_migrate(fee_distributor::contract::migrate),
            )),
            fee_distributor_mock: app.store_code(Box::new(ContractWrapper::new_with_empty(
                fee_distributor_mock::contract::execute,
                fee_distributor_mock::contract::instantiate,
                fee_distributor_mock::contract::query,
            ))),
            whale_lair: app.store_code(Box::new(
                ContractWrapper::new_with_empty(
                    whale_lair::contract::execute,
                    whale_lair::contract::instantiate,
                    whale_lair::contract::query,
                )
                .with_migrate(whale_lair::contract::migrate),
            )),
            vault: app.store_code(Box::new(
                ContractWrapper::new_with_empty(
                    vault::contract::execute,
                    vault::contract::instantiate,
                    vault::contract::query,
                )
                .with_reply(vault::reply::reply)
                .with_migrate(vault::contract::migrate),
            )),
            vault_factory: app.store_code(Box::new(
                ContractWrapper::new_with_empty(
                    vault_factory::contract::execute,
                    vault_factory::contract::instantiate,
                    vault_factory::contract::query,
                )
                .with_reply(vault_factory::reply::reply)
                .with_migrate(vault_factory::contract::migrate),
            )),
            vault_router: app.store_code(Box::new(
                ContractWrapper::new_with_empty(
                    vault_router::contract::execute,
                    vault_router::contract::instantiate,
                    vault_router::contract::query,
                )
                .with_migrate(vault_router::contract::migrate),
            )),
            incentive: app.store_code(Box::new(
                ContractWrapper::new_with_empty(
                    incentive::contract::execute,
                    incentive::contract::instantiate,
                    incentive::contract::query,
                )
                .with_migrate(incentive::contract::migrate),
            )),
            incentive_factory: app.store_code(Box::new(
                ContractWrapper::new_with_empty(
                    incentive_factory::contract::execute,
                    incentive_factory::contract::instantiate,
                    incentive_factory::contract::query,
                )
                .with_reply(incentive_factory::contract::reply)
                .with_migrate(incentive_factory::contract::migrate),
            )),
            frontend_helper: app.store_code(Box::new(
                ContractWrapper::new_with_empty(
                    frontend_helper::contract::execute,
                    frontend_helper::contract::instantiate,
                    frontend_helper::contract::query,
                )
                .with_reply(frontend_helper::contract::reply)
                .with_migrate(frontend_helper::contract::migrate),
            )),
            epoch_manager: app.store_code(Box::new(
                ContractWrapper::new_with_empty(
                    epoch_manager::contract::execute,
                    epoch_manager::contract::instantiate,
                    epoch_manager::contract::query,
                )
                .with_migrate(epoch_manager::contract::migrate),
            )),
        };
        let owner = Addr::unchecked("owner");
        World {
            app,
            codes,
            accounts: vec![("owner".into(), owner.clone())],
            denoms: vec![],
            tokens: vec![],
            spell_upper: false,
            owner,
        }
    }

    pub fn add_account(&mut self, name: &str) -> Addr {
        let a = Addr::unchecked(name);
        if !self.accounts.iter().any(|(_, x)| *x == a) {
            self.accounts.push((name.to_string(), a.clone()));
        }
        a
    }

    pub fn register(&mut self, name: &str, addr: &Addr) {
        if !self.accounts.iter().any(|(_, x)| x == addr) {
            self.accounts.push((name.to_string(), addr.clone()));
        }
    }

    pub fn name_of(&self, addr: &str) -> String {
        self.accounts
            .iter()
            .find(|(_, a)| a.as_str() == addr)
            .map(|(n, _)| n.clone())
            .unwrap_or_else(|| addr.to_string())
    }

    pub fn add_denom(&mut self, denom: &str) -> A {
        if !self.denoms.iter().any(|d| d == denom) {
            self.denoms.push(denom.to_string());
        }
        A::Native(denom.to_string())
    }

    pub fn mint_native(&mut self, to: &Addr, denom: &str, amount: u128) {
        if amount == 0 {
            return;
        }
        self.app
            .sudo(SudoMsg::Bank(BankSudo::Mint {
                to_address: to.to_string(),
                amount: vec![coin(amount, denom)],
            }))
            .unwrap();
    }

    /// creates a cw20 token whose minter is the world owner
    pub fn add_cw20(&mut self, name: &str, symbol: &str, decimals: u8) -> A {
        let addr = self
            .app
            .instantiate_contract(
                self.codes.token,
                self.owner.clone(),
                &pool_network::token::InstantiateMsg {
                    name: name.to_string(),
                    symbol: symbol.to_string(),
                    decimals,
                    initial_balances: Vec::<Cw20Coin>::new(),
                    mint: Some(MinterResponse { minter: self.owner.to_string(), cap: None }),
                },
                &[],
                name,
                None,
            )
            .unwrap();
        self.tokens.push(addr.clone());
        self.register(name, &addr);
        A::Cw20(addr)
    }

    pub fn fund(&mut self, to: &Addr, asset: &A, amount: u128) {
        match asset {
            A::Native(d) => self.mint_native(to, &d.clone(), amount),
            A::Cw20(t) => {
                if amount == 0 {
                    return;
                }
                self.app
                    .execute_contract(
                        self.owner.clone(),
                        t.clone(),
                        &Cw20ExecuteMsg::Mint {
                            recipient: to.to_string(),
                            amount: Uint128::new(amount),
                        },
                        &[],
                    )
                    .unwrap();
            }
        }
    }

    pub fn balance(&self, who: &Addr, asset: &A) -> u128 {
        match asset {
            A::Native(d) => self.app.wrap().query_balance(who, d).unwrap().amount.u128(),
            A::Cw20(t) => {
                let r: cw20::BalanceResponse = self
                    .app
                    .wrap()
                    .query_wasm_smart(t, &Cw20QueryMsg::Balance { address: who.to_string() })
                    .unwrap();
                r.balance.u128()
            }
        }
    }

    pub fn cw20_supply(&self, token: &Addr) -> u128 {
        let r: cw20::TokenInfoResponse =
            self.app.wrap().query_wasm_smart(token, &Cw20QueryMsg::TokenInfo {}).unwrap();
        r.total_supply.u128()
    }

    /// circulating supply of an asset: cw20 total_supply, or the sum over all known accounts
    pub fn supply(&self, asset: &A) -> u128 {
        match asset {
            A::Cw20(t) => self.cw20_supply(t),
            A::Native(_) => self.accounts.iter().map(|(_, a)| self.balance(a, asset)).sum(),
        }
    }

    pub fn query<T: DeserializeOwned, M: Serialize>(&self, c: &Addr, msg: &M) -> Result<T, String> {
        // queries can panic in contract code as well
        let app = &self.app;
        match catch_unwind(AssertUnwindSafe(|| app.wrap().query_wasm_smart::<T>(c, msg))) {
            Ok(Ok(v)) => Ok(v),
            Ok(Err(e)) => Err(e.to_string()),
            Err(p) => Err(format!("PANIC: {}", panic_text(p))),
        }
    }

    /// executes one top-level message; panics in contract code are caught and reported as aborts
    pub fn exec<M: Serialize + std::fmt::Debug>(
        &mut self,
        sender: &Addr,
        contract: &Addr,
        msg: &M,
        funds: &[Coin],
    ) -> Res {
        let app = &mut self.app;
        let r = catch_unwind(AssertUnwindSafe(|| {
            app.execute_contract(sender.clone(), contract.clone(), msg, funds)
        }));
        match r {
            Ok(Ok(resp)) => Res::Ok(resp),
            Ok(Err(e)) => Res::Rejected(format!("{:#}", e)),
            Err(p) => Res::Aborted(panic_text(p)),
        }
    }

    /// cw20 `Send` with an embedded hook message
    pub fn cw20_send<M: Serialize>(
        &mut self,
        sender: &Addr,
        token: &Addr,
        contract: &Addr,
        amount: u128,
        hook: &M,
    ) -> Res {
        let msg = Cw20ExecuteMsg::Send {
            contract: contract.to_string(),
            amount: Uint128::new(amount),
            msg: to_json_binary(hook).unwrap(),
        };
        self.exec(sender, token, &msg, &[])
    }

    pub fn set_allowance(&mut self, owner: &Addr, token: &Addr, spender: &Addr, amount: u128) {
        // reset to exactly `amount`
        let cur: cw20::AllowanceResponse = self
            .app
            .wrap()
            .query_wasm_smart(
                token,
                &Cw20QueryMsg::Allowance { owner: owner.to_string(), spender: spender.to_string() },
            )
            .unwrap();
        let cur = cur.allowance.u128();
        if cur < amount {
            self.app
                .execute_contract(
                    owner.clone(),
                    token.clone(),
                    &Cw20ExecuteMsg::IncreaseAllowance {
                        spender: spender.to_string(),
                        amount: Uint128::new(amount - cur),
                        expires: None,
                    },
                    &[],
                )
                .unwrap();
        } else if cur > amount {
            self.app
                .execute_contract(
                    owner.clone(),
                    token.clone(),
                    &Cw20ExecuteMsg::DecreaseAllowance {
                        spender: spender.to_string(),
                        amount: Uint128::new(cur - amount),
                        expires: None,
                    },
                    &[],
                )
                .unwrap();
        }
    }

    /// Hash of everything observable: raw storage of every known contract and every
    /// (account, denom) bank balance.  cw20 balances live in the token contracts' storage.
    pub fn digest(&self) -> String {
        let mut h = DefaultHasher::new();
        for (name, a) in &self.accounts {
            name.hash(&mut h);
            for d in &self.denoms {
                self.app.wrap().query_balance(a, d).unwrap().amount.u128().hash(&mut h);
            }
            if self.app.contract_data(a).is_ok() {
                for (k, v) in self.app.dump_wasm_raw(a) {
                    k.hash(&mut h);
                    v.hash(&mut h);
                }
            }
        }
        format!("{:016x}", h.finish())
    }

    pub fn now_nanos(&self) -> u64 {
        self.app.block_info().time.nanos()
    }

    pub fn advance(&mut self, nanos: u64, blocks: u64) {
        self.app.update_block(|b| {
            b.time = b.time.plus_nanos(nanos);
            b.height += blocks;
        });
    }

    // ------------------------------------------------------------------ pool network

    pub fn new_fee_collector(&mut self) -> Addr {
        let a = self
            .app
            .instantiate_contract(
                self.codes.fee_collector,
                self.owner.clone(),
                &white_whale_std::fee_collector::InstantiateMsg {},
                &[],
                "fee_collector",
                None,
            )
            .unwrap();
        self.register("collector", &a);
        a
    }

    pub fn new_pool_factory(&mut self, collector: &Addr) -> Addr {
        let a = self
            .app
            .instantiate_contract(
                self.codes.pool_factory,
                self.owner.clone(),
                &pool_network::factory::InstantiateMsg {
                    pair_code_id: self.codes.pair,
                    trio_code_id: self.codes.trio,
                    token_code_id: self.codes.token,
                    fee_collector_addr: collector.to_string(),
                },
                &[],
                "pool_factory",
                None,
            )
            .unwrap();
        self.register("pool_factory", &a);
        a
    }

    pub fn new_pool_router(&mut self, factory: &Addr) -> Addr {
        let a = self
            .app
            .instantiate_contract(
                self.codes.pool_router,
                self.owner.clone(),
                &pool_network::router::InstantiateMsg { terraswap_factory: factory.to_string() },
                &[],
                "pool_router",
                None,
            )
            .unwrap();
        self.register("pool_router", &a);
        a
    }

    /// registers native decimals at the factory (which must hold one unit of the denom)
    pub fn factory_add_native(&mut self, factory: &Addr, denom: &str, decimals: u8) {
        self.mint_native(&factory.clone(), denom, 1);
        self.app
            .execute_contract(
                self.owner.clone(),
                factory.clone(),
                &pool_network::factory::ExecuteMsg::AddNativeTokenDecimals {
                    denom: denom.to_string(),
                    decimals,
                },
                &[],
            )
            .unwrap();
    }

    /// creates a pair through the factory; returns (pair, lp token)
    pub fn create_pair(
        &mut self,
        factory: &Addr,
        assets: [&A; 2],
        fees: PoolFee,
        pair_type: PairType,
        name: &str,
    ) -> Result<(Addr, Addr), String> {
        let r = self.exec(
            &self.owner.clone(),
            factory,
            &pool_network::factory::ExecuteMsg::CreatePair {
                asset_infos: {
                    let sp = |a: &A| match a.info() {
                        pool_network::asset::AssetInfo::Token { contract_addr } if self.spell_upper => pool_network::asset::AssetInfo::Token { contract_addr: contract_addr.to_uppercase() },
                        x => x };
                    [sp(assets[0]), sp(assets[1])] },
                pool_fees: fees,
                pair_type,
                token_factory_lp: false,
            },
            &[],
        );
        if !r.is_ok() {
            return Err(r.err());
        }
        let info: pool_network::asset::PairInfo = self
            .query(
                factory,
                &pool_network::factory::QueryMsg::Pair {
                    asset_infos: [assets[0].info(), assets[1].info()],
                },
            )
            .map_err(|e| e.to_string())?;
        let pair = Addr::unchecked(info.contract_addr);
        let lp = match info.liquidity_token {
            AssetInfo::Token { contract_addr } => Addr::unchecked(contract_addr),
            AssetInfo::NativeToken { denom } => Addr::unchecked(denom),
        };
        self.register(name, &pair);
        self.register(&format!("{name}_lp"), &lp);
        self.tokens.push(lp.clone());
        Ok((pair, lp))
    }
}

pub fn s(x: u128) -> Value {
    Value::String(x.to_string())
}

pub fn sv(xs: &[u128]) -> Value {
    Value::Array(xs.iter().map(|x| s(*x)).collect())
}

pub fn empty() -> Empty {
    Empty {}
}

/// A cw20 "receive" message as raw JSON (whatever cw20 version the callee was built with): used to forge receipts, i.e. to
/// send the Receive message directly instead of through the token contract.
pub fn forged_receive<M: Serialize>(sender: &Addr, amount: u128, hook: &M) -> Value {
    json!({"receive": {"sender": sender.to_string(), "amount": amount.to_string(), "msg": cosmwasm_std::to_json_binary(hook).unwrap()}})
}

pub fn jerr(e: &str) -> Value {
    // keep error texts short and free of characters that upset readers of the trace
    let t: Vec<char> = e.chars().filter(|c| c.is_ascii() && !c.is_ascii_control() && *c != '"' && *c != '\\').collect();
    let n = t.len();
    let t: String = t[n.saturating_sub(140)..].iter().collect();
    json!(t)
}
