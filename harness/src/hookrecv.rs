//! Recording hook receiver: stores every EpochChangedHook it is sent.
use cosmwasm_schema::cw_serde;
use cosmwasm_std::{to_json_binary, Binary, Deps, DepsMut, Empty, Env, MessageInfo, Response, StdResult};
use cw_multi_test::{Contract, ContractWrapper};
use cw_storage_plus::Item;
use white_whale_std::epoch_manager::epoch_manager::EpochV2;
use white_whale_std::epoch_manager::hooks::EpochChangedHookMsg;

#[cw_serde]
pub enum HookExecute {
    EpochChangedHook(EpochChangedHookMsg),
}
#[cw_serde]
pub enum HookQuery {
    Log {},
}
const LOG: Item<Vec<EpochV2>> = Item::new("log");

fn instantiate(deps: DepsMut, _e: Env, _i: MessageInfo, _m: Empty) -> StdResult<Response> {
    LOG.save(deps.storage, &vec![])?;
    Ok(Response::new())
}
fn execute(deps: DepsMut, _e: Env, _i: MessageInfo, msg: HookExecute) -> StdResult<Response> {
    let HookExecute::EpochChangedHook(m) = msg;
    let mut l = LOG.load(deps.storage)?;
    l.push(m.current_epoch);
    LOG.save(deps.storage, &l)?;
    Ok(Response::new())
}
fn query(deps: Deps, _e: Env, _m: HookQuery) -> StdResult<Binary> {
    to_json_binary(&LOG.load(deps.storage)?)
}
pub fn contract() -> Box<dyn Contract<Empty>> {
    Box::new(ContractWrapper::new(execute, instantiate, query))
}

/// A "vault" that can be created through the vault factory (it accepts the vault's instantiate message) and then refuses
/// every message: a registered child whose CollectProtocolFees fails (fault injection for the fee pipeline, C10).
mod broken {
    use super::*;
    use cosmwasm_std::StdError;
    fn instantiate(_d: DepsMut, _e: Env, _i: MessageInfo, _m: white_whale_std::vault_network::vault::InstantiateMsg) -> StdResult<Response> { Ok(Response::new()) }
    fn execute(_d: DepsMut, _e: Env, _i: MessageInfo, _m: white_whale_std::vault_network::vault::ExecuteMsg) -> StdResult<Response> { Err(StdError::generic_err("broken vault")) }
    fn query(_d: Deps, _e: Env, _m: white_whale_std::vault_network::vault::QueryMsg) -> StdResult<Binary> { Err(StdError::generic_err("broken vault")) }
    pub fn contract() -> Box<dyn Contract<Empty>> { Box::new(ContractWrapper::new(execute, instantiate, query)) }
}
pub fn broken_vault_contract() -> Box<dyn Contract<Empty>> { broken::contract() }

/// A code whose `migrate` accepts anything: the target of direct wasm-level migration attempts (C16: the children of a
/// factory are migrated through their factory only, so such an attempt by an account must be refused by the chain).
mod anymigrate {
    use super::*;
    fn instantiate(_d: DepsMut, _e: Env, _i: MessageInfo, _m: Empty) -> StdResult<Response> { Ok(Response::new()) }
    fn execute(_d: DepsMut, _e: Env, _i: MessageInfo, _m: Empty) -> StdResult<Response> { Ok(Response::new()) }
    fn query(_d: Deps, _e: Env, _m: Empty) -> StdResult<Binary> { to_json_binary(&0u8) }
    fn migrate(_d: DepsMut, _e: Env, _m: Empty) -> StdResult<Response> { Ok(Response::new()) }
    pub fn contract() -> Box<dyn Contract<Empty>> { Box::new(ContractWrapper::new(execute, instantiate, query).with_migrate(migrate)) }
}
pub fn any_migrate_contract() -> Box<dyn Contract<Empty>> { anymigrate::contract() }
