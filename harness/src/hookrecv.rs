//! Recording hook receiver: stores every EpochChangedHook it is sent.
use cosmwasm_schema::cw_serde;
use cosmwasm_std::{to_json_binary, Binary, Deps, DepsMut, Empty, Env, MessageInfo, Response, StdResult};
use cw_multi_test::{Contract, ContractWrapper};
use cw_storage_plus::Item;
use white_whale_std::epoch_manager::epoch_manager::EpochV2;
use white_whale_std::epoch_manager::hooks::EpochChangedHookMsg;

#[cw_serde]
pub enum HookExecute {
    EpochChangedHook(EpochChangedHookMsg),
}
#[cw_serde]
pub enum HookQuery {
    Log {},
}
const LOG: Item<Vec<EpochV2>> = Item::new("log");

fn instantiate(deps: DepsMut, _e: Env, _i: MessageInfo, _m: Empty) -> StdResult<Response> {
    LOG.save(deps.storage, &vec![])?;
    Ok(Response::new())
}
fn execute(deps: DepsMut, _e: Env, _i: MessageInfo, msg: HookExecute) -> StdResult<Response> {
    let HookExecute::EpochChangedHook(m) = msg;
    let mut l = LOG.load(deps.storage)?;
    l.push(m.current_epoch);
    LOG.save(deps.storage, &l)?;
    Ok(Response::new())
}
fn query(deps: Deps, _e: Env, _m: HookQuery) -> StdResult<Binary> {
    to_json_binary(&LOG.load(deps.storage)?)
}
pub fn contract() -> Box<dyn Contract<Empty>> {
    Box::new(ContractWrapper::new(execute, instantiate, query))
}
