//! ndjson trace writer: one JSON object per line, amounts always strings.
use std::fs::File;
use std::io::{BufWriter, Write};

use serde_json::Value;

pub struct Rec {
    out: BufWriter<File>,
    pub lines: u64,
}

impl Rec {
    pub fn create(path: &str) -> Rec {
        Rec { out: BufWriter::new(File::create(path).expect("create trace file")), lines: 0 }
    }
    pub fn emit(&mut self, v: Value) {
        serde_json::to_writer(&mut self.out, &v).unwrap();
        self.out.write_all(b"\n").unwrap();
        self.lines += 1;
    }
    pub fn finish(mut self) -> u64 {
        self.out.flush().unwrap();
        self.lines
    }
}
